//! Native replayer: feeds the byte vectors of a Kani concrete playback to the same harness body,
//! compiled natively against the real darklua (no stubs), and prints a JSON verdict.
//!
//! usage: replay <body-name> <hex,hex,...>     (`-` stands for an empty vector)
use darklua_verif_harness::registry::{bodies, run_body};
use darklua_verif_harness::source::ReplaySource;

fn parse(arg: &str) -> Vec<Vec<u8>> {
    if arg.is_empty() {
        return Vec::new();
    }
    arg.split(',')
        .map(|item| {
            if item == "-" {
                Vec::new()
            } else {
                (0..item.len() / 2)
                    .map(|i| u8::from_str_radix(&item[2 * i..2 * i + 2], 16).expect("hex"))
                    .collect()
            }
        })
        .collect()
}

fn json_string(s: &str) -> String {
    let mut out = String::from("\"");
    for c in s.chars() {
        match c {
            '"' => out.push_str("\\\""),
            '\\' => out.push_str("\\\\"),
            '\n' => out.push_str("\\n"),
            '\r' => out.push_str("\\r"),
            '\t' => out.push_str("\\t"),
            c if (c as u32) < 0x20 => out.push_str(&format!("\\u{:04x}", c as u32)),
            c => out.push(c),
        }
    }
    out.push('"');
    out
}

fn main() {
    let args: Vec<String> = std::env::args().collect();
    if args.len() < 2 || args[1] == "--list" {
        for (name, _) in bodies() {
            println!("{}", name);
        }
        return;
    }
    let name = args[1].clone();
    let values = parse(args.get(2).map(String::as_str).unwrap_or(""));
    let mut source = ReplaySource::new(values);
    std::panic::set_hook(Box::new(|_| {}));
    let outcome = std::panic::catch_unwind(std::panic::AssertUnwindSafe(|| run_body(&name, &mut source)));
    let (found, panic_message) = match outcome {
        Ok(found) => (found, None),
        Err(payload) => {
            let message = payload
                .downcast_ref::<String>()
                .cloned()
                .or_else(|| payload.downcast_ref::<&str>().map(|s| s.to_string()))
                .unwrap_or_else(|| "panic".to_owned());
            (true, Some(message))
        }
    };
    let list = |items: &[String]| {
        format!("[{}]", items.iter().map(|s| json_string(s)).collect::<Vec<_>>().join(","))
    };
    let failures: Vec<String> = source.failures.iter().map(|s| s.to_string()).collect();
    println!(
        "{{\"body\":{},\"known_body\":{},\"panicked\":{},\"panic_message\":{},\"assumption_violated\":{},\"inputs_exhausted\":{},\"failures\":{},\"notes\":{}}}",
        json_string(&name),
        found,
        panic_message.is_some(),
        panic_message.as_deref().map(json_string).unwrap_or_else(|| "null".to_owned()),
        source.assumption_violated,
        source.exhausted,
        list(&failures),
        list(&source.notes),
    );
}
