//! C17 — inject_global_value only replaces reads of the *global* NAME: the identifier `NAME`,
//! `_G.NAME`, `_G["NAME"]`, and `NAME` in prefix position (`NAME.field`, `NAME()`), and none of
//! them when `NAME` (resp. `_G`) is a local variable or parameter at that point.
//!
//! One node step of `ValueInjection::process_expression` / `process_prefix_expression` per
//! control scenario. The node kind and what the scope tracker answers are *constants* of each
//! scenario (constant-scenario trick, DESIGN §0), so that the node that is overwritten has a
//! concrete variant and CBMC stays out of the drop glue of the other variants.
use crate::source::Source;
use crate::{claim, note, observe};
use darklua_core::nodes::*;

/// The injected global. (The tracker stub answers by first byte: `d…` → slot 1, others → slot 2.)
const NAME: &str = "dev";
const OTHER: &str = "oth";

/// Node kinds: 0 `NAME`, 1 `other`, 2 `_G.NAME`, 3 `_G.oth`, 4 `x.NAME`, 5 `_G["NAME"]`,
/// 6 `x["NAME"]`, 7 `_G["oth"]` (expression position); 8 `NAME` and 9 `other` in prefix position.
#[cfg(not(kani))]
fn node_text(kind: u8) -> &'static str {
    match kind {
        0 => "dev",
        1 => "oth",
        2 => "_G.dev",
        3 => "_G.oth",
        4 => "x.dev",
        5 => "_G['dev']",
        6 => "x['dev']",
        7 => "_G['oth']",
        8 => "dev.field",
        _ => "oth.field",
    }
}

fn build_expression(kind: u8) -> Expression {
    match kind {
        0 => Expression::identifier(NAME),
        1 => Expression::identifier(OTHER),
        2 => FieldExpression::new(Prefix::from_name("_G"), NAME).into(),
        3 => FieldExpression::new(Prefix::from_name("_G"), OTHER).into(),
        4 => FieldExpression::new(Prefix::from_name("x"), NAME).into(),
        5 => IndexExpression::new(Prefix::from_name("_G"), StringExpression::from_value(NAME)).into(),
        6 => IndexExpression::new(Prefix::from_name("x"), StringExpression::from_value(NAME)).into(),
        _ => IndexExpression::new(Prefix::from_name("_G"), StringExpression::from_value(OTHER)).into(),
    }
}

/// `<Expression as Clone>::clone` for the only expression this harness clones: the injected value.
#[cfg(kani)]
pub fn clone_stub(_expression: &Expression) -> Expression {
    Expression::identifier("INJECTED")
}

/// Natively: the real rule end to end on `[local NAME = f] [local _G = f] return NODE`.
#[cfg(not(kani))]
fn replaced_end_to_end(kind: u8, name_is_local: bool, g_is_local: bool) -> (bool, String) {
    use darklua_core::{Configuration, Options, Resources};
    let mut source = String::new();
    if name_is_local {
        source.push_str("local dev = f\n");
    }
    if g_is_local {
        source.push_str("local _G = f\n");
    }
    source.push_str("return ");
    source.push_str(node_text(kind));
    source.push('\n');
    let resources = Resources::from_memory();
    resources.write("src/main.lua", &source).expect("write");
    let rule = darklua_core::rules::InjectGlobalValue::boolean(NAME, true);
    let configuration =
        Configuration::empty().with_rule(Box::new(rule) as Box<dyn darklua_core::rules::Rule>);
    darklua_core::process(&resources, Options::new("src").with_configuration(configuration))
        .expect("process");
    let output = resources.get("src/main.lua").expect("output");
    let replaced = !output
        .replace(' ', "")
        .contains(&format!("return{}", node_text(kind)));
    (replaced, format!("{:?} -> {:?}", source, output))
}

#[inline(never)]
fn scenario<S: Source>(s: &mut S, kind: u8, name_is_local: bool, g_is_local: bool) {
    #[cfg(kani)]
    let replaced = {
        unsafe {
            darklua_core::verif::IDENTIFIER_USED_ANSWERS = [false, name_is_local, g_is_local];
        }
        if kind < 8 {
            let mut expression = build_expression(kind);
            darklua_core::verif::inject_value_process_expression(
                NAME,
                Expression::identifier("VALUE"),
                &mut expression,
            );
            let replaced = matches!(&expression, Expression::Identifier(identifier) if identifier.get_name().len() == 8);
            core::mem::forget(expression);
            replaced
        } else {
            let mut prefix = Prefix::from_name(if kind == 8 { NAME } else { OTHER });
            darklua_core::verif::inject_value_process_prefix(
                NAME,
                Expression::identifier("VALUE"),
                &mut prefix,
            );
            let replaced = matches!(&prefix, Prefix::Parenthese(_));
            core::mem::forget(prefix);
            replaced
        }
    };
    #[cfg(not(kani))]
    let (replaced, text) = replaced_end_to_end(kind, name_is_local, g_is_local);
    note!(s, "inject_global_value(dev = true), dev is a local: {}, _G is a local: {}: {} (replaced: {})", name_is_local, g_is_local, text, replaced);
    let reads_global = match kind {
        0 | 8 => !name_is_local,
        2 | 5 => !g_is_local,
        _ => false,
    };
    observe!(replaced, "an occurrence of the global is replaced");
    observe!(!replaced && !reads_global, "an occurrence that is not the global is left alone");
    claim!(s, !replaced || reads_global, "inject_global_value only replaces an occurrence that reads the global: never a local variable / parameter of that name, a field of a local `_G`, another name or a field of another table");
    claim!(s, replaced || !reads_global || kind == 8, "inject_global_value replaces the identifier, `_G.NAME` and `_G[\"NAME\"]` forms of the unshadowed global");
}

macro_rules! inject_scenarios {
    ($s:expr, $index:expr; $( ($kind:expr, $name:expr, $g:expr) ),* $(,)?) => {{
        let mut counter: u8 = 0;
        $(
            if $index == counter {
                scenario($s, $kind, $name, $g);
            }
            counter += 1;
        )*
        counter
    }};
}

macro_rules! inject_harness {
    ($body:ident, $proof:ident, $kind:expr) => {
        pub fn $body<S: Source>(s: &mut S) {
            let index = s.any_u8();
            let count = inject_scenarios!(s, index;
                ($kind, false, false), ($kind, false, true), ($kind, true, false), ($kind, true, true));
            s.assume(index < count);
        }
        #[cfg(kani)]
        #[kani::proof]
        #[kani::unwind(5)]
        #[kani::stub(darklua_core::process::scope_visitor::IdentifierTracker::is_identifier_used, darklua_core::verif::is_identifier_used_stub)]
        #[kani::stub(<darklua_core::nodes::Expression as std::clone::Clone>::clone, crate::c17_inject::clone_stub)]
        fn $proof() {
            $body(&mut crate::source::KaniSource);
        }
    };
}

inject_harness!(inject_identifier, c17_inject_identifier, 0);
inject_harness!(inject_other_identifier, c17_inject_other_identifier, 1);
inject_harness!(inject_global_field, c17_inject_global_field, 2);
inject_harness!(inject_global_other_field, c17_inject_global_other_field, 3);
inject_harness!(inject_table_field, c17_inject_table_field, 4);
inject_harness!(inject_global_index, c17_inject_global_index, 5);
inject_harness!(inject_table_index, c17_inject_table_index, 6);
inject_harness!(inject_global_other_index, c17_inject_global_other_index, 7);
inject_harness!(inject_prefix, c17_inject_prefix, 8);
inject_harness!(inject_other_prefix, c17_inject_other_prefix, 9);
