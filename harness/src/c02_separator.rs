//! C02 — a `;` is written between a statement ending in a prefix expression and a statement
//! starting with `(` (otherwise `f() (g)()` reads as one call chain).
use crate::lua::{binary_operator, unary_operator};
use crate::source::Source;
use crate::{claim, note, observe};
use darklua_core::nodes::*;
use darklua_core::verif::generator_utils as utils;

/// Last expression of the first statement. Returns the expression and whether its LAST TOKEN
/// can be followed by a call's `(` as part of the same expression: a name, `)`, `]`, or a
/// string / table call-sugar position cannot arise (strings and tables are not prefix
/// expressions in Lua's grammar), so only name / `)` / `]` endings count.
/// Shapes: 0 `x`, 1 `f()`, 2 `(x)`, 3 `x.y`, 4 `x[1]`, 5 `1`, 6 `'s'`, 7 `{}`, 8 `true`, 9 `...`,
/// 10 `function() end`, 11 `a OP <inner>`, 12 `-<inner>` / `not <inner>` / `#<inner>`,
/// 13 `if c then 1 else <inner>`; `<inner>` is one of the shapes 0..=10.
fn simple_expression(shape: u8) -> (Expression, bool) {
    match shape {
        0 => (Expression::identifier("x"), true),
        1 => (FunctionCall::from_name("f").into(), true),
        2 => (ParentheseExpression::new(Expression::identifier("x")).into(), true),
        3 => (FieldExpression::new(Prefix::from_name("x"), "y").into(), true),
        4 => (IndexExpression::new(Prefix::from_name("x"), DecimalNumber::new(1.0)).into(), true),
        5 => (DecimalNumber::new(1.0).into(), false),
        6 => (StringExpression::from_value("s").into(), false),
        7 => (TableExpression::default().into(), false),
        8 => (Expression::from(true), false),
        9 => (Expression::variable_arguments(), false),
        _ => (FunctionExpression::default().into(), false),
    }
}

fn last_expression(wrapper: u8, inner: u8, op: u8, unary: u8) -> (Expression, bool) {
    let (inner_expression, callable_end) = simple_expression(inner);
    match wrapper {
        0 => (inner_expression, callable_end),
        1 => (
            BinaryExpression::new(binary_operator(op), Expression::identifier("a"), inner_expression).into(),
            callable_end,
        ),
        2 => (UnaryExpression::new(unary_operator(unary), inner_expression).into(), callable_end),
        _ => (
            IfExpression::new(Expression::identifier("c"), DecimalNumber::new(1.0), inner_expression).into(),
            callable_end,
        ),
    }
}

/// First statements (`kind` is a constant of each harness): 0 call statement, 1 `local v = E`,
/// 2 `v = E`, 3 `repeat until E`, 4 `v += E`, 5 `local v` (no value), 6 `do end`.
fn first_statement(kind: u8, expression: Expression, callable_end: bool) -> (Statement, bool) {
    match kind {
        0 => {
            core::mem::forget(expression);
            (Statement::Call(FunctionCall::from_name("f")), true)
        }
        1 => (
            LocalAssignStatement::new(vec![TypedIdentifier::new("v")], vec![expression]).into(),
            callable_end,
        ),
        2 => (
            AssignStatement::new(vec![Variable::new("v")], vec![expression]).into(),
            callable_end,
        ),
        3 => (RepeatStatement::new(Block::default(), expression).into(), callable_end),
        4 => (
            CompoundAssignStatement::new(CompoundOperator::Plus, Variable::new("v"), expression).into(),
            callable_end,
        ),
        5 => {
            core::mem::forget(expression);
            (LocalAssignStatement::from_variable("v").into(), false)
        }
        _ => {
            core::mem::forget(expression);
            (DoStatement::new(Block::default()).into(), false)
        }
    }
}

/// Prefix chains for the second statement; returns whether its first token is `(`.
/// 0 `x`, 1 `(x)`, 2 `(x).y`, 3 `(x)[1]`, 4 `(x)()`, 5 `x.y`, 6 `(x).y.z`.
fn prefix_chain(shape: u8) -> (Prefix, bool) {
    let parenthese = || Prefix::Parenthese(Box::new(ParentheseExpression::new(Expression::identifier("x"))));
    match shape {
        0 => (Prefix::from_name("x"), false),
        1 => (parenthese(), true),
        2 => (FieldExpression::new(parenthese(), "y").into(), true),
        3 => (IndexExpression::new(parenthese(), DecimalNumber::new(1.0)).into(), true),
        4 => (FunctionCall::from_prefix(parenthese()).into(), true),
        5 => (FieldExpression::new(Prefix::from_name("x"), "y").into(), false),
        _ => (FieldExpression::new(FieldExpression::new(parenthese(), "y"), "z").into(), true),
    }
}

/// Second statements: 0 call `P()`, 1 `P.f = 1`, 2 `P[1] = 1`, 3 `P.f += 1`, 4 `local v = 1`.
fn second_statement(kind: u8, prefix: Prefix, starts_with_parenthese: bool) -> (Statement, bool) {
    match kind {
        0 => (Statement::Call(FunctionCall::from_prefix(prefix)), starts_with_parenthese),
        1 => (
            AssignStatement::from_variable(FieldExpression::new(prefix, "f"), DecimalNumber::new(1.0)).into(),
            starts_with_parenthese,
        ),
        2 => (
            AssignStatement::from_variable(IndexExpression::new(prefix, DecimalNumber::new(1.0)), DecimalNumber::new(1.0)).into(),
            starts_with_parenthese,
        ),
        3 => (
            CompoundAssignStatement::new(CompoundOperator::Plus, FieldExpression::new(prefix, "f"), DecimalNumber::new(1.0)).into(),
            starts_with_parenthese,
        ),
        _ => {
            core::mem::forget(prefix);
            (LocalAssignStatement::new(vec![TypedIdentifier::new("v")], vec![DecimalNumber::new(1.0).into()]).into(), false)
        }
    }
}

/// H-C02-stmt-sep: `first_kind` and `wrapper` are constants of each harness.
fn statement_separator<S: Source>(s: &mut S, first_kind: u8, wrapper: u8) {
    let (inner, op, unary) = (s.any_u8(), s.any_u8(), s.any_u8());
    s.assume(inner < 11 && op < 16 && unary < 3);
    let (chain, second_kind) = (s.any_u8(), s.any_u8());
    s.assume(chain < 7 && second_kind < 5);
    let (expression, callable_end) = last_expression(wrapper, inner, op, unary);
    let (first, ends_callable) = first_statement(first_kind, expression, callable_end);
    let (prefix, parenthese_first) = prefix_chain(chain);
    let (second, starts_open) = second_statement(second_kind, prefix, parenthese_first);
    let separated = utils::ends_with_prefix(&first) && utils::starts_with_parenthese(&second);
    let required = ends_callable && starts_open;
    note!(s, "first {:?} ; second {:?} ; `;` written={} required={}", first, second, separated, required);
    observe!(separated, "a separator is written");
    observe!(!separated && starts_open, "no separator before a `(` statement after a closed statement");
    claim!(s, separated || !required, "a `;` separates a statement whose last token can be called from a statement starting with `(`");
    core::mem::forget(first);
    core::mem::forget(second);
}

macro_rules! separator_harness {
    ($proof:ident, $body:ident, $kind:expr, $wrapper:expr) => {
        pub fn $body<S: Source>(s: &mut S) {
            statement_separator(s, $kind, $wrapper)
        }
        crate::proof!(#[kani::unwind(6)] $proof => $body);
    };
}
separator_harness!(c02_separator_call, separator_call, 0, 0);
separator_harness!(c02_separator_local_leaf, separator_local_leaf, 1, 0);
separator_harness!(c02_separator_local_binary, separator_local_binary, 1, 1);
separator_harness!(c02_separator_local_unary, separator_local_unary, 1, 2);
separator_harness!(c02_separator_local_if, separator_local_if, 1, 3);
separator_harness!(c02_separator_assign_leaf, separator_assign_leaf, 2, 0);
separator_harness!(c02_separator_repeat_leaf, separator_repeat_leaf, 3, 0);
separator_harness!(c02_separator_compound_leaf, separator_compound_leaf, 4, 0);
