//! Helpers shared by the harnesses: symbolic Lua values paired with their reference kind.
use crate::reference::V;
use crate::source::Source;
use darklua_core::process::LuaValue;

/// Abstract operand: what `evaluate(child)` answers, paired with what the child *really* is.
#[derive(Clone, Copy, Debug)]
pub struct Operand {
    /// the real run-time value of the child (always defined: error-free runs only)
    pub actual: V,
    /// whether the evaluator knows it (`false` => it answers `Unknown`)
    pub known: bool,
}

pub const KIND_COUNT: u8 = 7;

/// Draws a value kind (and a number payload) from the source.
pub fn any_v<S: Source>(s: &mut S) -> V {
    let kind = s.any_u8();
    s.assume(kind < KIND_COUNT);
    let number = s.any_f64();
    v_from(kind, number)
}

pub fn v_from(kind: u8, number: f64) -> V {
    match kind {
        0 => V::Nil,
        1 => V::False,
        2 => V::True,
        3 => V::Number(number),
        4 => V::Str,
        5 => V::Table,
        _ => V::Function,
    }
}

/// The `LuaValue` an exact evaluator gives for `v` (strings get a fixed one-byte payload: the
/// harnesses never rely on string bytes).
pub fn lua_value(v: V) -> LuaValue {
    match v {
        V::Nil => LuaValue::Nil,
        V::False => LuaValue::False,
        V::True => LuaValue::True,
        V::Number(n) => LuaValue::Number(n),
        V::Str => LuaValue::String(vec![b's']),
        V::Table => LuaValue::Table,
        V::Function => LuaValue::Function,
    }
}

pub fn any_operand<S: Source>(s: &mut S) -> Operand {
    let actual = any_v(s);
    let known = s.any_bool();
    Operand { actual, known }
}

pub fn answer(operand: Operand) -> LuaValue {
    if operand.known {
        lua_value(operand.actual)
    } else {
        LuaValue::Unknown
    }
}

/// Is `result` a sound answer for an expression whose real value is `actual`?
/// (`Unknown` is always sound; a definite answer must be exactly the value; numbers compare
/// bitwise except that any NaN stands for any NaN.)
pub fn sound(result: &LuaValue, actual: V) -> bool {
    match (result, actual) {
        (LuaValue::Unknown, _) => true,
        (LuaValue::Nil, V::Nil) => true,
        (LuaValue::False, V::False) => true,
        (LuaValue::True, V::True) => true,
        (LuaValue::Number(a), V::Number(b)) => {
            (a.is_nan() && b.is_nan()) || a.to_bits() == b.to_bits()
        }
        (LuaValue::String(_), V::Str) => true,
        (LuaValue::Table, V::Table) => true,
        (LuaValue::Function, V::Function) => true,
        _ => false,
    }
}

pub fn describe(result: &LuaValue) -> String {
    format!("{:?}", result)
}
