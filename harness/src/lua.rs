//! Helpers shared by the harnesses: symbolic Lua values paired with their reference kind.
use crate::reference::V;
use crate::source::Source;
use darklua_core::process::LuaValue;

/// Abstract operand: what `evaluate(child)` answers, paired with what the child *really* is.
#[derive(Clone, Copy, Debug)]
pub struct Operand {
    /// the real run-time value of the child (always defined: error-free runs only)
    pub actual: V,
    /// whether the evaluator knows it (`false` => it answers `Unknown`)
    pub known: bool,
}

pub const KIND_COUNT: u8 = 7;

/// Draws a value kind (and a number payload) from the source.
pub fn any_v<S: Source>(s: &mut S) -> V {
    let kind = s.any_u8();
    s.assume(kind < KIND_COUNT);
    let number = s.any_f64();
    v_from(kind, number)
}

pub fn v_from(kind: u8, number: f64) -> V {
    match kind {
        0 => V::Nil,
        1 => V::False,
        2 => V::True,
        3 => V::Number(number),
        4 => V::Str,
        5 => V::Table,
        _ => V::Function,
    }
}

/// The `LuaValue` an exact evaluator gives for `v` (strings get a fixed one-byte payload: the
/// harnesses never rely on string bytes).
pub fn lua_value(v: V) -> LuaValue {
    match v {
        V::Nil => LuaValue::Nil,
        V::False => LuaValue::False,
        V::True => LuaValue::True,
        V::Number(n) => LuaValue::Number(n),
        V::Str => LuaValue::String(vec![b's']),
        V::Table => LuaValue::Table,
        V::Function => LuaValue::Function,
    }
}

pub fn any_operand<S: Source>(s: &mut S) -> Operand {
    let actual = any_v(s);
    let known = s.any_bool();
    Operand { actual, known }
}

pub fn answer(operand: Operand) -> LuaValue {
    if operand.known {
        lua_value(operand.actual)
    } else {
        LuaValue::Unknown
    }
}

/// Is `result` a sound answer for an expression whose real value is `actual`?
/// (`Unknown` is always sound; a definite answer must be exactly the value; numbers compare
/// bitwise except that any NaN stands for any NaN.)
pub fn sound(result: &LuaValue, actual: V) -> bool {
    match (result, actual) {
        (LuaValue::Unknown, _) => true,
        (LuaValue::Nil, V::Nil) => true,
        (LuaValue::False, V::False) => true,
        (LuaValue::True, V::True) => true,
        (LuaValue::Number(a), V::Number(b)) => {
            (a.is_nan() && b.is_nan()) || a.to_bits() == b.to_bits()
        }
        (LuaValue::String(_), V::Str) => true,
        (LuaValue::Table, V::Table) => true,
        (LuaValue::Function, V::Function) => true,
        _ => false,
    }
}

pub fn describe(result: &LuaValue) -> String {
    format!("{:?}", result)
}

// ------------------------------------------------------------------------------------------------
// children of node-step harnesses

use darklua_core::nodes::*;
use darklua_core::process::Evaluator;

pub fn binary_operator(op: u8) -> BinaryOperator {
    match op {
        0 => BinaryOperator::And,
        1 => BinaryOperator::Or,
        2 => BinaryOperator::Equal,
        3 => BinaryOperator::NotEqual,
        4 => BinaryOperator::LowerThan,
        5 => BinaryOperator::LowerOrEqualThan,
        6 => BinaryOperator::GreaterThan,
        7 => BinaryOperator::GreaterOrEqualThan,
        8 => BinaryOperator::Plus,
        9 => BinaryOperator::Minus,
        10 => BinaryOperator::Asterisk,
        11 => BinaryOperator::Slash,
        12 => BinaryOperator::DoubleSlash,
        13 => BinaryOperator::Percent,
        14 => BinaryOperator::Caret,
        _ => BinaryOperator::Concat,
    }
}

pub fn unary_operator(op: u8) -> UnaryOperator {
    match op {
        0 => UnaryOperator::Not,
        1 => UnaryOperator::Minus,
        _ => UnaryOperator::Length,
    }
}

/// What the harness decided about one child of the node under test.
#[derive(Clone, Copy)]
pub struct Child {
    pub operand: Operand,
    /// executing the child can call out (function call, metamethod)
    pub effects: bool,
    /// what `has_side_effects(child)` answers: true whenever `effects` (induction hypothesis)
    pub effects_answer: bool,
}

pub const SLOTS: usize = 8;
pub static mut CHILD_ANSWER_KIND: [u8; SLOTS] = [7; SLOTS];
pub static mut CHILD_ANSWER_NUMBER: [f64; SLOTS] = [0.0; SLOTS];
pub static mut CHILD_EFFECTS_ANSWER: [bool; SLOTS] = [false; SLOTS];

fn kind_of(v: V) -> (u8, f64) {
    match v {
        V::Nil => (0, 0.0),
        V::False => (1, 0.0),
        V::True => (2, 0.0),
        V::Number(n) => (3, n),
        V::Str => (4, 0.0),
        V::Table => (5, 0.0),
        V::Function => (6, 0.0),
    }
}

pub fn any_child<S: Source>(s: &mut S) -> Child {
    let operand = any_operand(s);
    let effects = s.any_bool();
    let effects_answer = s.any_bool();
    // induction hypothesis on the side-effect analysis: never misses an effect
    s.assume(effects_answer || !effects);
    // a child whose value the evaluator knows exactly is a literal-like tree; executing it may
    // still call out only if the analysis says so
    Child { operand, effects, effects_answer }
}

/// Under Kani: an identifier leaf named after its slot, whose `evaluate` / `has_side_effects`
/// answers are served by the stubs below. Natively: the smallest real expression realising the
/// child (`true`, `1.5`, `{}`, `x`, `f()`...), evaluated by the real, unstubbed code.
pub fn child_expression(slot: usize, child: Child) -> Expression {
    #[cfg(kani)]
    {
        let (kind, number) = kind_of(child.operand.actual);
        unsafe {
            CHILD_ANSWER_KIND[slot] = if child.operand.known { kind } else { 7 };
            CHILD_ANSWER_NUMBER[slot] = number;
            CHILD_EFFECTS_ANSWER[slot] = child.effects_answer;
        }
        Expression::identifier(SLOT_NAMES[slot])
    }
    #[cfg(not(kani))]
    {
        let _ = kind_of;
        realise(slot, child)
    }
}

pub const SLOT_NAMES: [&str; SLOTS] = ["a", "b", "c", "d", "e", "f", "g", "h"];

#[cfg(not(kani))]
pub fn realise(slot: usize, child: Child) -> Expression {
    if child.effects_answer && child.operand.known {
        // known value, evaluating it calls out: `{ f() }` for a table, `{ f() } and <literal>` otherwise
        let effectful_table: Expression =
            TableExpression::new(vec![TableEntry::from_value(FunctionCall::from_name(SLOT_NAMES[slot]))]).into();
        let literal: Expression = match child.operand.actual {
            V::Table => return effectful_table,
            V::Nil => Expression::nil(),
            V::False => Expression::from(false),
            V::True => Expression::from(true),
            V::Number(n) => DecimalNumber::new(n).into(),
            V::Str => StringExpression::from_value("s").into(),
            V::Function => FunctionExpression::default().into(),
        };
        return BinaryExpression::new(BinaryOperator::And, effectful_table, literal).into();
    }
    if child.effects_answer {
        // the only leaf-like expression with effects: a call (its value is unknown)
        return FunctionCall::from_name(SLOT_NAMES[slot]).into();
    }
    if !child.operand.known {
        return Expression::identifier(SLOT_NAMES[slot]);
    }
    match child.operand.actual {
        V::Nil => Expression::nil(),
        V::False => Expression::from(false),
        V::True => Expression::from(true),
        V::Number(n) => DecimalNumber::new(n).into(),
        V::Str => StringExpression::from_value("s").into(),
        V::Table => TableExpression::default().into(),
        V::Function => FunctionExpression::default().into(),
    }
}

/// Natively a child with effects is realised as a call, whose value the real evaluator does not
/// know: such a child must have been drawn as unknown for the replay to be faithful.
pub fn realisable(_child: Child) -> bool {
    // every combination is realisable: a value the evaluator knows although evaluating the
    // expression calls out is `{ f() } and <literal>` (or `{ f() }` itself for a table)
    true
}

fn slot_of(expression: &Expression) -> usize {
    match expression {
        Expression::Identifier(identifier) => {
            let name = identifier.get_name().as_bytes();
            if name.len() == 1 && name[0] >= b'a' && name[0] < b'a' + SLOTS as u8 {
                (name[0] - b'a') as usize
            } else {
                SLOTS
            }
        }
        _ => SLOTS,
    }
}

/// Stub for `Evaluator::evaluate` in node-step harnesses: the induction hypothesis.
pub fn evaluate_stub(_evaluator: &Evaluator, expression: &Expression) -> LuaValue {
    let slot = slot_of(expression);
    if slot >= SLOTS {
        return LuaValue::Unknown;
    }
    let (kind, number) = unsafe { (CHILD_ANSWER_KIND[slot], CHILD_ANSWER_NUMBER[slot]) };
    match kind {
        0 => LuaValue::Nil,
        1 => LuaValue::False,
        2 => LuaValue::True,
        3 => LuaValue::Number(number),
        4 => LuaValue::String(vec![b's']),
        5 => LuaValue::Table,
        6 => LuaValue::Function,
        _ => LuaValue::Unknown,
    }
}

/// Stub for `Evaluator::has_side_effects` in node-step harnesses.
pub fn has_side_effects_stub(_evaluator: &Evaluator, expression: &Expression) -> bool {
    let slot = slot_of(expression);
    if slot >= SLOTS {
        return true;
    }
    unsafe { CHILD_EFFECTS_ANSWER[slot] }
}

/// `number_coercion` restricted to operands that are not strings: the identity.
pub fn number_coercion_stub(value: LuaValue) -> LuaValue {
    value
}

/// `string_coercion`: a number becomes *some* string (its digits are outside the claim).
pub fn string_coercion_stub(value: LuaValue) -> LuaValue {
    match value {
        LuaValue::Number(_) => LuaValue::String(vec![b'n']),
        other => other,
    }
}

pub fn any_evaluator<S: Source>(s: &mut S) -> (Evaluator, bool) {
    let pure = s.any_bool();
    (
        if pure {
            Evaluator::default().assume_pure_metamethods()
        } else {
            Evaluator::default()
        },
        pure,
    )
}
