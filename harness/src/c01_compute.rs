//! C01 — compute_expression's fold of one `and`/`or` node (`Computer::replace_with`), with the
//! evaluator and the side-effect analysis answered under the induction hypothesis.
use crate::lua::*;
use crate::reference::*;
use crate::source::Source;
use crate::{claim, note, observe};
use darklua_core::nodes::*;
use darklua_core::process::{Evaluator, LuaValue};
use darklua_core::verif as hooks;

/// What the node-level stubs answer for the node under test itself.
pub static mut NODE_ANSWER_KIND: u8 = 7;
pub static mut NODE_ANSWER_NUMBER: f64 = 0.0;
pub static mut NODE_EFFECTS_ANSWER: bool = true;
/// What `to_expression` was asked to turn into a literal (kind 7 = never called).
pub static mut FOLDED_KIND: u8 = 7;
pub static mut FOLDED_NUMBER: f64 = 0.0;

/// Child shapes: 0 identifier-like leaf (single value), 1 call `a()` (may yield any number of
/// values, value unknown, has effects), 2 `...` (may yield any number of values, no effects).
#[derive(Clone, Copy)]
pub struct Shaped {
    pub child: Child,
    pub shape: u8,
}

fn any_shaped<S: Source>(s: &mut S) -> Shaped {
    let child = any_child(s);
    let shape = s.any_u8();
    s.assume(shape < 3);
    match shape {
        1 => s.assume(!child.operand.known && child.effects_answer),
        2 => s.assume(!child.operand.known && !child.effects && !child.effects_answer),
        _ => {}
    }
    s.assume(realisable(child));
    Shaped { child, shape }
}

/// Under Kani every operand is an identifier leaf whatever its shape: `replace_with` looks at
/// its operands only through `evaluate`, `has_side_effects` and `clone` (all answered by stubs),
/// so the shape only constrains those answers and feeds the arity claim. (Returning different
/// `Expression` variants from the stubs makes CBMC explore the drop glue of every variant.)
/// Natively the operand is a real call / `...`.
fn shaped_expression(slot: usize, shaped: Shaped) -> Expression {
    #[cfg(kani)]
    {
        child_expression(slot, shaped.child)
    }
    #[cfg(not(kani))]
    {
        match shaped.shape {
            1 => FunctionCall::from_name(SLOT_NAMES[slot]).into(),
            2 => Expression::variable_arguments(),
            _ => child_expression(slot, shaped.child),
        }
    }
}

#[cfg(kani)]
fn node_slot(expression: &Expression) -> usize {
    match expression {
        Expression::Identifier(identifier) => {
            let name = identifier.get_name().as_bytes();
            if name.len() != 1 {
                SLOTS
            } else if name[0] == b'a' {
                0
            } else if name[0] == b'b' {
                1
            } else {
                SLOTS
            }
        }
        // the right operand of the `right_is_call` scenarios is a real call `b()`
        Expression::Call(_) => 1,
        _ => SLOTS,
    }
}

#[cfg(kani)]
pub fn evaluate_stub(evaluator: &Evaluator, expression: &Expression) -> LuaValue {
    let (kind, number) = match expression {
        Expression::Binary(_) | Expression::Unary(_) | Expression::If(_) => unsafe {
            (NODE_ANSWER_KIND, NODE_ANSWER_NUMBER)
        },
        _ => return crate::lua::evaluate_stub(evaluator, expression),
    };
    match kind {
        0 => LuaValue::Nil,
        1 => LuaValue::False,
        2 => LuaValue::True,
        3 => LuaValue::Number(number),
        _ => LuaValue::Unknown,
    }
}

#[cfg(kani)]
pub fn has_side_effects_stub(evaluator: &Evaluator, expression: &Expression) -> bool {
    match expression {
        Expression::Binary(_) | Expression::Unary(_) | Expression::If(_) => unsafe { NODE_EFFECTS_ANSWER },
        Expression::Call(_) => true,
        _ => crate::lua::has_side_effects_stub(evaluator, expression),
    }
}

/// `LuaValue::to_expression`: records what is folded and returns a marker for the kinds the
/// real function turns into literals (its number arm runs log10/powf: literal construction is
/// outside the claim).
#[cfg(kani)]
pub fn to_expression_stub(value: LuaValue) -> Option<Expression> {
    let (kind, number) = match value {
        LuaValue::Nil => (0, 0.0),
        LuaValue::False => (1, 0.0),
        LuaValue::True => (2, 0.0),
        LuaValue::Number(n) => (3, n),
        LuaValue::String(_) => (4, 0.0),
        _ => return None,
    };
    unsafe {
        FOLDED_KIND = kind;
        FOLDED_NUMBER = number;
    }
    Some(Expression::identifier("FOLDED"))
}

/// `<Expression as Clone>::clone` restricted to the identifier leaves this harness holds.
#[cfg(kani)]
pub fn clone_stub(expression: &Expression) -> Expression {
    match expression {
        Expression::Call(_) => FunctionCall::from_name("b").into(),
        _ => match node_slot(expression) {
            0 => Expression::identifier("a"),
            _ => Expression::identifier("b"),
        },
    }
}

/// What the replacement is: nothing, a folded literal, or one of the two operands.
#[derive(PartialEq, Clone, Copy, Debug)]
enum Replacement {
    None,
    Literal,
    Left,
    Right,
    Other,
}

/// One control scenario of H-C01-compute-step, every stub answer that `replace_with` branches
/// on being a *constant* of the call site (so that CBMC's constant propagation prunes the drop
/// glue of the `Option<Expression>` temporaries, which are all `None` when dropped); values,
/// the right operand and the operands' real behaviour stay symbolic.
///
/// `left_kind`: what `evaluate(L)` answers (0 nil, 2 true, 5 table - possibly `{ f() }` -, 7 Unknown);
/// `node_kind`: what `evaluate(L op R)` answers (0 nil, 1 false, 2 true, 3 number, 7 Unknown).
#[inline(never)]
fn scenario<S: Source>(
    s: &mut S,
    is_or: bool,
    left_kind: u8,
    left_effects_answer: bool,
    node_effects_answer: bool,
    node_kind: u8,
    right_is_call: bool,
) {
    let op: u8 = if is_or { 1 } else { 0 };
    let mut left = any_shaped(s);
    let right = any_shaped(s);
    // a constant of the scenario: the right operand is a real call expression (so that code
    // inspecting the operand's variant - e.g. to parenthesise a call - sees one) or not
    s.assume((right.shape == 1) == right_is_call);
    let number = s.any_f64();
    // the left operand as the scenario fixes it
    left.child.operand.known = left_kind != 7;
    if left_kind != 7 {
        left.child.operand.actual = v_from(left_kind, number);
    }
    left.child.effects_answer = left_effects_answer;
    s.assume(left_effects_answer || !left.child.effects);
    match left.shape {
        1 => s.assume(left_kind == 7 && left_effects_answer),
        2 => s.assume(left_kind == 7 && !left_effects_answer && !left.child.effects),
        _ => {}
    }
    s.assume(realisable(left.child));
    // distinguishable operands; at most one vararg
    s.assume(!(left.shape == 2 && right.shape == 2));
    let (l, r) = (left.child, right.child);
    let value = match lua_binary(op, l.operand.actual, r.operand.actual) {
        Outcome::Value(v) => v,
        _ => V::Nil,
    };
    let selects_left = l.operand.actual.truthy() == is_or;
    let node_effects = l.effects || (!selects_left && r.effects);

    // induction hypothesis for the node itself
    let node_known = node_kind != 7;
    s.assume(node_effects_answer || !node_effects);
    // has_side_effects(L op R) is true whenever has_side_effects(L) is
    s.assume(node_effects_answer || !l.effects_answer);
    // evaluate(L op R) is definite only if the operands that decide it are known, and is exact
    s.assume(!node_known || (l.operand.known && (selects_left || r.operand.known)));
    if node_known {
        match (node_kind, value) {
            (0, V::Nil) | (1, V::False) | (2, V::True) | (3, V::Number(_)) => {}
            _ => s.assume(false),
        }
    }
    #[cfg(kani)]
    unsafe {
        NODE_ANSWER_KIND = node_kind;
        NODE_ANSWER_NUMBER = match value {
            V::Number(n) => n,
            _ => 0.0,
        };
        NODE_EFFECTS_ANSWER = node_effects_answer;
        FOLDED_KIND = 7;
    }
    let left_expression = shaped_expression(0, left);
    // (the branch is on the scenario constant, so the variant built is concrete on each path)
    #[cfg(kani)]
    let right_expression: Expression = if right_is_call {
        core::mem::forget(shaped_expression(1, right));
        FunctionCall::from_name("b").into()
    } else {
        shaped_expression(1, right)
    };
    #[cfg(not(kani))]
    let right_expression = shaped_expression(1, right);
    #[cfg(not(kani))]
    let (left_copy, right_copy) = (left_expression.clone(), right_expression.clone());
    let node: Expression =
        BinaryExpression::new(binary_operator(op), left_expression, right_expression).into();
    let replacement = hooks::compute_expression_replace_with(&node);

    let mut parenthesised = false;
    #[cfg(kani)]
    let (what, folded) = match &replacement {
        None => (Replacement::None, V::Nil),
        Some(Expression::Identifier(identifier)) if identifier.get_name().len() == 6 => {
            (Replacement::Literal, unsafe { v_from(FOLDED_KIND, FOLDED_NUMBER) })
        }
        Some(expression) => {
            // `(operand)`: a parenthesised operand yields exactly one value
            let inner = match expression {
                Expression::Parenthese(parenthese) => {
                    parenthesised = true;
                    parenthese.inner_expression()
                }
                other => other,
            };
            match node_slot(inner) {
                0 => (Replacement::Left, V::Nil),
                1 => (Replacement::Right, V::Nil),
                _ => (Replacement::Other, V::Nil),
            }
        }
    };
    #[cfg(not(kani))]
    let (what, folded) = match &replacement {
        None => (Replacement::None, V::Nil),
        Some(Expression::Parenthese(parenthese)) if *parenthese.inner_expression() == left_copy && left_copy != right_copy => {
            parenthesised = true;
            (Replacement::Left, V::Nil)
        }
        Some(Expression::Parenthese(parenthese)) if *parenthese.inner_expression() == right_copy && left_copy != right_copy => {
            parenthesised = true;
            (Replacement::Right, V::Nil)
        }
        Some(expression) if *expression == left_copy && left_copy != right_copy => (Replacement::Left, V::Nil),
        Some(expression) if *expression == right_copy && left_copy != right_copy => (Replacement::Right, V::Nil),
        Some(expression) => match Evaluator::default().evaluate(expression) {
            LuaValue::Nil => (Replacement::Literal, V::Nil),
            LuaValue::False => (Replacement::Literal, V::False),
            LuaValue::True => (Replacement::Literal, V::True),
            LuaValue::Number(n) => (Replacement::Literal, V::Number(n)),
            LuaValue::String(_) => (Replacement::Literal, V::Str),
            LuaValue::Table => (Replacement::Literal, V::Table),
            LuaValue::Function => (Replacement::Literal, V::Function),
            LuaValue::Unknown => (Replacement::Other, V::Nil),
        },
    };
    note!(s, "compute_expression on {:?} -> {:?} ({:?})", node, replacement, what);

    observe!(what == Replacement::None || what != Replacement::None, "replace_with returned");

    claim!(s, what != Replacement::Other, "the replacement is a literal or one of the two operands");
    match what {
        Replacement::Literal => {
            claim!(s, !node_effects, "and/or is folded to a literal only when evaluating it calls nothing");
            claim!(s, folded == value || matches!((folded, value), (V::Number(a), V::Number(b)) if a.to_bits() == b.to_bits() || (a.is_nan() && b.is_nan())),
                "and/or is folded to the value Lua computes");
        }
        Replacement::Left => {
            claim!(s, selects_left, "and/or is replaced by its left operand only when Lua selects the left operand");
            if left.shape == 0 || parenthesised {
                claim!(s, true, "left operand kept");
            } else {
                claim!(s, false, "and/or (always exactly one value) is not replaced by a bare call or `...` operand, which may yield any number of values [left operand]");
            }
        }
        Replacement::Right => {
            claim!(s, !selects_left, "and/or is replaced by its right operand only when Lua selects the right operand");
            claim!(s, !l.effects, "and/or is replaced by its right operand only when dropping the left operand loses no call");
            if right.shape != 0 && !parenthesised {
                claim!(s, false, "and/or (always exactly one value) is not replaced by a bare call or `...` operand, which may yield any number of values [right operand]");
            }
        }
        _ => {}
    }
    core::mem::forget(node);
    core::mem::forget(replacement);
}

/// H-C01-compute-step on a unary node (`kind` 0) or an if-expression (`kind` 1): the node is
/// folded to a literal only when the analyses say it has no side effects, and to the value the
/// evaluator gives. `node_effects_answer` / `node_kind` are constants of the call site.
#[inline(never)]
fn node_scenario<S: Source>(s: &mut S, kind: u8, node_effects_answer: bool, node_kind: u8) {
    // what executing the node really does
    let value = any_v(s);
    let node_effects = s.any_bool();
    s.assume(node_effects_answer || !node_effects);
    match (node_kind, value) {
        (7, _) | (0, V::Nil) | (1, V::False) | (2, V::True) | (3, V::Number(_)) => {}
        _ => s.assume(false),
    }
    #[cfg(kani)]
    unsafe {
        NODE_ANSWER_KIND = node_kind;
        NODE_ANSWER_NUMBER = match value {
            V::Number(n) => n,
            _ => 0.0,
        };
        NODE_EFFECTS_ANSWER = node_effects_answer;
        FOLDED_KIND = 7;
    }
    #[cfg(not(kani))]
    {
        // natively the answers come from the real analyses: replay only what a real tree realises
        let _ = (node_effects, node_kind);
        s.assume(false);
    }
    let leaf = |name: &'static str| Expression::identifier(name);
    let node: Expression = if kind == 0 {
        UnaryExpression::new(UnaryOperator::Not, leaf("a")).into()
    } else {
        IfExpression::new(leaf("a"), leaf("b"), leaf("c")).into()
    };
    let replacement = hooks::compute_expression_replace_with(&node);
    note!(s, "compute_expression on {:?} -> {:?}", node, replacement);
    #[cfg(kani)]
    {
        let folded = match &replacement {
            None => None,
            Some(Expression::Identifier(identifier)) if identifier.get_name().len() == 6 => {
                Some(unsafe { v_from(FOLDED_KIND, FOLDED_NUMBER) })
            }
            Some(_) => Some(V::Function),
        };
        observe!(folded.is_some(), "the node is folded");
        if let Some(folded) = folded {
            claim!(s, !node_effects, "a unary or if-expression is folded to a literal only when evaluating it calls nothing");
            claim!(s, folded == value || matches!((folded, value), (V::Number(a), V::Number(b)) if a.to_bits() == b.to_bits() || (a.is_nan() && b.is_nan())),
                "a unary or if-expression is folded to the value the evaluator computed for it");
        }
    }
    core::mem::forget(node);
    core::mem::forget(replacement);
}

macro_rules! node_scenarios {
    ($s:expr, $index:expr; $( ($kind:expr, $ne:expr, $nk:expr) ),* $(,)?) => {{
        let mut counter: u16 = 0;
        $(
            if $index == counter {
                node_scenario($s, $kind, $ne, $nk);
            }
            counter += 1;
        )*
        let _ = counter;
    }};
}

pub fn compute_unary<S: Source>(s: &mut S) {
    let index = s.any_u16();
    node_scenarios!(s, index; (0, false, 7), (0, false, 2), (0, false, 1), (0, true, 7), (0, true, 2));
}
pub fn compute_if<S: Source>(s: &mut S) {
    let index = s.any_u16();
    node_scenarios!(s, index; (1, false, 7), (1, false, 3), (1, false, 0), (1, true, 7), (1, true, 3));
}

macro_rules! compute_proof {
    ($name:ident, $body:ident) => {
        #[cfg(kani)]
        #[kani::proof]
        #[kani::unwind(1)]
        #[kani::stub(darklua_core::process::Evaluator::evaluate, crate::c01_compute::evaluate_stub)]
        #[kani::stub(darklua_core::process::Evaluator::has_side_effects, crate::c01_compute::has_side_effects_stub)]
        #[kani::stub(darklua_core::process::LuaValue::to_expression, crate::c01_compute::to_expression_stub)]
        #[kani::stub(<darklua_core::nodes::Expression as std::clone::Clone>::clone, crate::c01_compute::clone_stub)]
        #[kani::stub(<darklua_core::rules::compute_expression::Computer as darklua_core::process::NodeProcessor>::process_expression, darklua_core::verif::compute_expression_process_expression_stub)]
        fn $name() {
            $body(&mut crate::source::KaniSource);
        }
    };
}

macro_rules! scenarios {
    ($s:expr, $index:expr, $counter:ident; $( ($or:expr, $lk:expr, $le:expr, $ne:expr, $nk:expr, $rc:expr) ),* $(,)?) => {{
        let mut $counter: u16 = 0;
        $(
            if $index == $counter {
                scenario($s, $or, $lk, $le, $ne, $nk, $rc);
            }
            $counter += 1;
        )*
        $counter
    }};
}


/// H-C01-compute-step, scenario group 0 (see `c01_scenarios_g0.in`).
pub fn compute_and_or_g0<S: Source>(s: &mut S) {
    let index = s.any_u16();
    let _count: u16 = include!("c01_scenarios_g0.in");
}
compute_proof!(c01_compute_and_or_g0, compute_and_or_g0);

/// H-C01-compute-step, scenario group 1 (see `c01_scenarios_g1.in`).
pub fn compute_and_or_g1<S: Source>(s: &mut S) {
    let index = s.any_u16();
    let _count: u16 = include!("c01_scenarios_g1.in");
}
compute_proof!(c01_compute_and_or_g1, compute_and_or_g1);

/// H-C01-compute-step, scenario group 2 (see `c01_scenarios_g2.in`).
pub fn compute_and_or_g2<S: Source>(s: &mut S) {
    let index = s.any_u16();
    let _count: u16 = include!("c01_scenarios_g2.in");
}
compute_proof!(c01_compute_and_or_g2, compute_and_or_g2);

/// H-C01-compute-step, scenario group 3 (see `c01_scenarios_g3.in`).
pub fn compute_and_or_g3<S: Source>(s: &mut S) {
    let index = s.any_u16();
    let _count: u16 = include!("c01_scenarios_g3.in");
}
compute_proof!(c01_compute_and_or_g3, compute_and_or_g3);

/// H-C01-compute-step, scenario group 4 (see `c01_scenarios_g4.in`).
pub fn compute_and_or_g4<S: Source>(s: &mut S) {
    let index = s.any_u16();
    let _count: u16 = include!("c01_scenarios_g4.in");
}
compute_proof!(c01_compute_and_or_g4, compute_and_or_g4);

/// H-C01-compute-step, scenario group 5 (see `c01_scenarios_g5.in`).
pub fn compute_and_or_g5<S: Source>(s: &mut S) {
    let index = s.any_u16();
    let _count: u16 = include!("c01_scenarios_g5.in");
}
compute_proof!(c01_compute_and_or_g5, compute_and_or_g5);

/// H-C01-compute-step, scenario group 6 (see `c01_scenarios_g6.in`).
pub fn compute_and_or_g6<S: Source>(s: &mut S) {
    let index = s.any_u16();
    let _count: u16 = include!("c01_scenarios_g6.in");
}
compute_proof!(c01_compute_and_or_g6, compute_and_or_g6);

/// H-C01-compute-step, scenario group 7 (see `c01_scenarios_g7.in`).
pub fn compute_and_or_g7<S: Source>(s: &mut S) {
    let index = s.any_u16();
    let _count: u16 = include!("c01_scenarios_g7.in");
}
compute_proof!(c01_compute_and_or_g7, compute_and_or_g7);

/// H-C01-compute-step, scenario group 8 (see `c01_scenarios_g8.in`).
pub fn compute_and_or_g8<S: Source>(s: &mut S) {
    let index = s.any_u16();
    let _count: u16 = include!("c01_scenarios_g8.in");
}
compute_proof!(c01_compute_and_or_g8, compute_and_or_g8);

/// H-C01-compute-step, scenario group 9 (see `c01_scenarios_g9.in`).
pub fn compute_and_or_g9<S: Source>(s: &mut S) {
    let index = s.any_u16();
    let _count: u16 = include!("c01_scenarios_g9.in");
}
compute_proof!(c01_compute_and_or_g9, compute_and_or_g9);

/// H-C01-compute-step, scenario group 10 (see `c01_scenarios_g10.in`).
pub fn compute_and_or_g10<S: Source>(s: &mut S) {
    let index = s.any_u16();
    let _count: u16 = include!("c01_scenarios_g10.in");
}
compute_proof!(c01_compute_and_or_g10, compute_and_or_g10);

/// H-C01-compute-step, scenario group 11 (see `c01_scenarios_g11.in`).
pub fn compute_and_or_g11<S: Source>(s: &mut S) {
    let index = s.any_u16();
    let _count: u16 = include!("c01_scenarios_g11.in");
}
compute_proof!(c01_compute_and_or_g11, compute_and_or_g11);

/// H-C01-compute-step, scenario group 12 (see `c01_scenarios_g12.in`).
pub fn compute_and_or_g12<S: Source>(s: &mut S) {
    let index = s.any_u16();
    let _count: u16 = include!("c01_scenarios_g12.in");
}
compute_proof!(c01_compute_and_or_g12, compute_and_or_g12);

/// H-C01-compute-step, scenario group 13 (see `c01_scenarios_g13.in`).
pub fn compute_and_or_g13<S: Source>(s: &mut S) {
    let index = s.any_u16();
    let _count: u16 = include!("c01_scenarios_g13.in");
}
compute_proof!(c01_compute_and_or_g13, compute_and_or_g13);

/// H-C01-compute-step, scenario group 14 (see `c01_scenarios_g14.in`).
pub fn compute_and_or_g14<S: Source>(s: &mut S) {
    let index = s.any_u16();
    let _count: u16 = include!("c01_scenarios_g14.in");
}
compute_proof!(c01_compute_and_or_g14, compute_and_or_g14);

/// H-C01-compute-step, scenario group 15 (see `c01_scenarios_g15.in`).
pub fn compute_and_or_g15<S: Source>(s: &mut S) {
    let index = s.any_u16();
    let _count: u16 = include!("c01_scenarios_g15.in");
}
compute_proof!(c01_compute_and_or_g15, compute_and_or_g15);

/// H-C01-compute-step, scenario group 16 (see `c01_scenarios_g16.in`).
pub fn compute_and_or_g16<S: Source>(s: &mut S) {
    let index = s.any_u16();
    let _count: u16 = include!("c01_scenarios_g16.in");
}
compute_proof!(c01_compute_and_or_g16, compute_and_or_g16);

/// H-C01-compute-step, scenario group 17 (see `c01_scenarios_g17.in`).
pub fn compute_and_or_g17<S: Source>(s: &mut S) {
    let index = s.any_u16();
    let _count: u16 = include!("c01_scenarios_g17.in");
}
compute_proof!(c01_compute_and_or_g17, compute_and_or_g17);

/// H-C01-compute-step, scenario group 18 (see `c01_scenarios_g18.in`).
pub fn compute_and_or_g18<S: Source>(s: &mut S) {
    let index = s.any_u16();
    let _count: u16 = include!("c01_scenarios_g18.in");
}
compute_proof!(c01_compute_and_or_g18, compute_and_or_g18);

/// H-C01-compute-step, scenario group 19 (see `c01_scenarios_g19.in`).
pub fn compute_and_or_g19<S: Source>(s: &mut S) {
    let index = s.any_u16();
    let _count: u16 = include!("c01_scenarios_g19.in");
}
compute_proof!(c01_compute_and_or_g19, compute_and_or_g19);

/// H-C01-compute-step, scenario group 20 (see `c01_scenarios_g20.in`).
pub fn compute_and_or_g20<S: Source>(s: &mut S) {
    let index = s.any_u16();
    let _count: u16 = include!("c01_scenarios_g20.in");
}
compute_proof!(c01_compute_and_or_g20, compute_and_or_g20);

/// H-C01-compute-step, scenario group 21 (see `c01_scenarios_g21.in`).
pub fn compute_and_or_g21<S: Source>(s: &mut S) {
    let index = s.any_u16();
    let _count: u16 = include!("c01_scenarios_g21.in");
}
compute_proof!(c01_compute_and_or_g21, compute_and_or_g21);

/// H-C01-compute-step, scenario group 22 (see `c01_scenarios_g22.in`).
pub fn compute_and_or_g22<S: Source>(s: &mut S) {
    let index = s.any_u16();
    let _count: u16 = include!("c01_scenarios_g22.in");
}
compute_proof!(c01_compute_and_or_g22, compute_and_or_g22);

/// H-C01-compute-step, scenario group 23 (see `c01_scenarios_g23.in`).
pub fn compute_and_or_g23<S: Source>(s: &mut S) {
    let index = s.any_u16();
    let _count: u16 = include!("c01_scenarios_g23.in");
}
compute_proof!(c01_compute_and_or_g23, compute_and_or_g23);

/// H-C01-compute-step, scenario group 24 (see `c01_scenarios_g24.in`).
pub fn compute_and_or_g24<S: Source>(s: &mut S) {
    let index = s.any_u16();
    let _count: u16 = include!("c01_scenarios_g24.in");
}
compute_proof!(c01_compute_and_or_g24, compute_and_or_g24);

/// H-C01-compute-step, scenario group 25 (see `c01_scenarios_g25.in`).
pub fn compute_and_or_g25<S: Source>(s: &mut S) {
    let index = s.any_u16();
    let _count: u16 = include!("c01_scenarios_g25.in");
}
compute_proof!(c01_compute_and_or_g25, compute_and_or_g25);

/// H-C01-compute-step, scenario group 26 (see `c01_scenarios_g26.in`).
pub fn compute_and_or_g26<S: Source>(s: &mut S) {
    let index = s.any_u16();
    let _count: u16 = include!("c01_scenarios_g26.in");
}
compute_proof!(c01_compute_and_or_g26, compute_and_or_g26);

/// H-C01-compute-step, scenario group 27 (see `c01_scenarios_g27.in`).
pub fn compute_and_or_g27<S: Source>(s: &mut S) {
    let index = s.any_u16();
    let _count: u16 = include!("c01_scenarios_g27.in");
}
compute_proof!(c01_compute_and_or_g27, compute_and_or_g27);

/// H-C01-compute-step, scenario group 28 (see `c01_scenarios_g28.in`).
pub fn compute_and_or_g28<S: Source>(s: &mut S) {
    let index = s.any_u16();
    let _count: u16 = include!("c01_scenarios_g28.in");
}
compute_proof!(c01_compute_and_or_g28, compute_and_or_g28);

/// H-C01-compute-step, scenario group 29 (see `c01_scenarios_g29.in`).
pub fn compute_and_or_g29<S: Source>(s: &mut S) {
    let index = s.any_u16();
    let _count: u16 = include!("c01_scenarios_g29.in");
}
compute_proof!(c01_compute_and_or_g29, compute_and_or_g29);

/// H-C01-compute-step, scenario group 30 (see `c01_scenarios_g30.in`).
pub fn compute_and_or_g30<S: Source>(s: &mut S) {
    let index = s.any_u16();
    let _count: u16 = include!("c01_scenarios_g30.in");
}
compute_proof!(c01_compute_and_or_g30, compute_and_or_g30);

/// H-C01-compute-step, scenario group 31 (see `c01_scenarios_g31.in`).
pub fn compute_and_or_g31<S: Source>(s: &mut S) {
    let index = s.any_u16();
    let _count: u16 = include!("c01_scenarios_g31.in");
}
compute_proof!(c01_compute_and_or_g31, compute_and_or_g31);

compute_proof!(c01_compute_unary, compute_unary);
compute_proof!(c01_compute_if, compute_if);
