//! C20 — file and rule filters: `(no apply ∨ ∃ apply matched) ∧ ¬∃ skip matched`.
//!
//! Under Kani the patterns are opaque (the glob is never built) and `FilterPattern::matches` is
//! stubbed by a solver-chosen answer per pattern. Natively the same body builds real glob
//! patterns that realise those answers for the path `src/a.lua` and runs the unstubbed code.
use crate::source::Source;
use crate::{claim, note, observe};
use darklua_core::verif as hooks;
use std::path::Path;

fn reference(apply: &[bool], skip: &[bool]) -> bool {
    let mut any_apply = apply.is_empty();
    for m in apply {
        any_apply |= *m;
    }
    let mut any_skip = false;
    for m in skip {
        any_skip |= *m;
    }
    any_apply && !any_skip
}

fn choose_answers<S: Source>(s: &mut S) -> [bool; 8] {
    let answers: [bool; 8] = [
        s.any_bool(), s.any_bool(), s.any_bool(), s.any_bool(),
        s.any_bool(), s.any_bool(), false, false,
    ];
    #[cfg(kani)]
    unsafe {
        hooks::FILTER_MATCH_ANSWERS = answers;
    }
    answers
}

#[cfg(not(kani))]
fn pattern(matches: bool) -> &'static str {
    if matches {
        "**/*.lua"
    } else {
        "elsewhere/**"
    }
}

fn rule_filters<S: Source>(s: &mut S, apply: usize, skip: usize) {
    let answers = choose_answers(s);
    let path = Path::new("src/a.lua");
    #[cfg(kani)]
    let metadata = unsafe { hooks::opaque_rule_metadata(apply, skip) };
    #[cfg(not(kani))]
    let metadata = {
        let mut metadata = darklua_core::rules::RuleMetadata::default();
        for i in 0..apply {
            metadata.push_apply_to_filter(pattern(answers[i]).to_owned()).expect("pattern");
        }
        for i in 0..skip {
            metadata.push_skip_filter(pattern(answers[apply + i]).to_owned()).expect("pattern");
        }
        metadata
    };
    let result = hooks::rule_metadata_should_apply(&metadata, path);
    let expected = reference(&answers[..apply], &answers[apply..apply + skip]);
    note!(s, "rule filters apply={:?} skip={:?} (true = pattern matches src/a.lua): should_apply={} expected={}",
        &answers[..apply], &answers[apply..apply + skip], result, expected);
    observe!(result, "rule applies");
    observe!(!result || apply + skip == 0, "rule skipped");
    claim!(s, result == expected, "a rule runs on a file exactly when (no apply pattern or some apply pattern matches) and no skip pattern matches");
    core::mem::forget(metadata);
}

fn config_filters<S: Source>(s: &mut S, apply: usize, skip: usize) {
    let answers = choose_answers(s);
    let path = Path::new("src/a.lua");
    let mut configuration = darklua_core::Configuration::empty();
    #[cfg(kani)]
    unsafe {
        hooks::set_opaque_configuration_filters(&mut configuration, apply, skip)
    };
    #[cfg(not(kani))]
    {
        for i in 0..apply {
            configuration.push_apply_to_filter(pattern(answers[i])).expect("pattern");
        }
        for i in 0..skip {
            configuration.push_skip_filter(pattern(answers[apply + i])).expect("pattern");
        }
    }
    let result = hooks::configuration_should_apply_rule(&configuration, path);
    let expected = reference(&answers[..apply], &answers[apply..apply + skip]);
    note!(s, "top-level filters apply={:?} skip={:?}: should_apply_rule={} expected={}",
        &answers[..apply], &answers[apply..apply + skip], result, expected);
    observe!(result, "file processed");
    observe!(!result || apply + skip == 0, "file skipped");
    claim!(s, result == expected, "a file is transformed exactly when (no apply pattern or some apply pattern matches) and no skip pattern matches");
    core::mem::forget(configuration);
}

macro_rules! filter_harness {
    ($rule:ident, $config:ident, $apply:expr, $skip:expr) => {
        pub fn $rule<S: Source>(s: &mut S) {
            rule_filters(s, $apply, $skip)
        }
        pub fn $config<S: Source>(s: &mut S) {
            config_filters(s, $apply, $skip)
        }
        #[cfg(kani)]
        mod $rule {
            #[kani::proof]
            #[kani::unwind(5)]
            #[kani::stub(darklua_core::utils::filter_pattern::FilterPattern::matches, darklua_core::verif::filter_matches_stub)]
            fn rule() {
                super::$rule(&mut crate::source::KaniSource);
            }
            #[kani::proof]
            #[kani::unwind(5)]
            #[kani::stub(darklua_core::utils::filter_pattern::FilterPattern::matches, darklua_core::verif::filter_matches_stub)]
            fn config() {
                super::$config(&mut crate::source::KaniSource);
            }
        }
    };
}

filter_harness!(c20_rule_apply0_skip0, c20_config_apply0_skip0, 0, 0);
filter_harness!(c20_rule_apply1_skip0, c20_config_apply1_skip0, 1, 0);
filter_harness!(c20_rule_apply0_skip1, c20_config_apply0_skip1, 0, 1);
filter_harness!(c20_rule_apply1_skip1, c20_config_apply1_skip1, 1, 1);
filter_harness!(c20_rule_apply2_skip0, c20_config_apply2_skip0, 2, 0);
filter_harness!(c20_rule_apply0_skip2, c20_config_apply0_skip2, 0, 2);
filter_harness!(c20_rule_apply2_skip2, c20_config_apply2_skip2, 2, 2);
filter_harness!(c20_rule_apply3_skip3, c20_config_apply3_skip3, 3, 3);
