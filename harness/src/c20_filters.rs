//! C20 — file and rule filters: `(no apply ∨ ∃ apply matched) ∧ ¬∃ skip matched`.
#![cfg(kani)]
use crate::source::{KaniSource, Source};
use darklua_core::verif as hooks;
use std::path::Path;

fn reference(apply: &[bool], skip: &[bool]) -> bool {
    let mut any_apply = apply.is_empty();
    for m in apply {
        any_apply |= *m;
    }
    let mut any_skip = false;
    for m in skip {
        any_skip |= *m;
    }
    any_apply && !any_skip
}

fn choose_answers(s: &mut impl Source) -> [bool; 8] {
    let answers: [bool; 8] = [
        s.any_bool(), s.any_bool(), s.any_bool(), s.any_bool(),
        s.any_bool(), s.any_bool(), false, false,
    ];
    unsafe {
        hooks::FILTER_MATCH_ANSWERS = answers;
    }
    answers
}

macro_rules! filter_harness {
    ($rule:ident, $config:ident, $apply:expr, $skip:expr) => {
        #[kani::proof]
        #[kani::unwind(5)]
        #[kani::stub(darklua_core::utils::filter_pattern::FilterPattern::matches, darklua_core::verif::filter_matches_stub)]
        fn $rule() {
            let answers = choose_answers(&mut KaniSource);
            let metadata = unsafe { hooks::opaque_rule_metadata($apply, $skip) };
            let result = hooks::rule_metadata_should_apply(&metadata, Path::new("src/a.lua"));
            let expected = reference(&answers[..$apply], &answers[$apply..$apply + $skip]);
            kani::cover!(result, "rule applies");
            kani::cover!(!result, "rule skipped");
            assert!(result == expected, "RuleMetadata::should_apply is (no apply or some apply matched) and no skip matched");
            std::mem::forget(metadata);
        }

        #[kani::proof]
        #[kani::unwind(5)]
        #[kani::stub(darklua_core::utils::filter_pattern::FilterPattern::matches, darklua_core::verif::filter_matches_stub)]
        fn $config() {
            let answers = choose_answers(&mut KaniSource);
            let mut configuration = darklua_core::Configuration::empty();
            unsafe { hooks::set_opaque_configuration_filters(&mut configuration, $apply, $skip) };
            let result = hooks::configuration_should_apply_rule(&configuration, Path::new("src/a.lua"));
            let expected = reference(&answers[..$apply], &answers[$apply..$apply + $skip]);
            kani::cover!(result, "file processed");
            kani::cover!(!result, "file skipped");
            assert!(result == expected, "Configuration::should_apply_rule is (no apply or some apply matched) and no skip matched");
            std::mem::forget(configuration);
        }
    };
}

filter_harness!(c20_rule_apply0_skip0, c20_config_apply0_skip0, 0, 0);
filter_harness!(c20_rule_apply1_skip0, c20_config_apply1_skip0, 1, 0);
filter_harness!(c20_rule_apply0_skip1, c20_config_apply0_skip1, 0, 1);
filter_harness!(c20_rule_apply1_skip1, c20_config_apply1_skip1, 1, 1);
filter_harness!(c20_rule_apply2_skip0, c20_config_apply2_skip0, 2, 0);
filter_harness!(c20_rule_apply0_skip2, c20_config_apply0_skip2, 0, 2);
filter_harness!(c20_rule_apply2_skip2, c20_config_apply2_skip2, 2, 2);
filter_harness!(c20_rule_apply3_skip3, c20_config_apply3_skip3, 3, 3);
