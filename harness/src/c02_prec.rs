//! C02 — parentheses are emitted wherever the reference grammar would otherwise group the
//! unparenthesised text differently.
use crate::lua::{binary_operator, unary_operator};
use crate::reference::*;
use crate::source::Source;
use crate::{claim, note, observe};
use darklua_core::nodes::*;

fn leaf(name: &'static str) -> Expression {
    Expression::identifier(name)
}

/// Operand shapes: 0 leaf, 1 `x INNER y`, 2 `-x`/`not x`/`#x`, 3 `if c then x else y`,
/// 4 `x INNER (if c then y else z)` (an operand *ending* in an open if-expression),
/// 5 `not (if ...)`, 6 `x INNER -y`, 7 `(x)`, 8 `-(x INNER if c then y else z)`,
/// 9 `(x INNER2 y) INNER z`, 10 `x INNER (y INNER2 z)` (no Parenthese nodes: the writer decides).
fn operand(group: u8, shape: u8, inner: u8, unary: u8) -> Expression {
    // `group` is a constant of each harness: only its shapes are ever constructed
    match group {
        0 => match shape {
            0 => leaf("x"),
            1 => BinaryExpression::new(binary_operator(inner), leaf("x"), leaf("y")).into(),
            _ => ParentheseExpression::new(leaf("x")).into(),
        },
        1 => match shape {
            2 => UnaryExpression::new(unary_operator(unary), leaf("x")).into(),
            _ => BinaryExpression::new(
                binary_operator(inner),
                leaf("x"),
                UnaryExpression::new(unary_operator(unary), leaf("y")),
            )
            .into(),
        },
        3 => UnaryExpression::new(
            unary_operator(unary),
            BinaryExpression::new(
                binary_operator(inner),
                leaf("x"),
                IfExpression::new(leaf("c"), leaf("y"), leaf("z")),
            ),
        )
        .into(),
        // three-level operands: `unary` doubles as the second inner operator (0..16)
        4 => match shape {
            // `(x INNER2 y) INNER z`: binary whose LEFT spine is binary
            9 => BinaryExpression::new(
                binary_operator(inner),
                BinaryExpression::new(binary_operator(unary), leaf("x"), leaf("y")),
                leaf("z"),
            )
            .into(),
            // `x INNER (y INNER2 z)`: binary whose RIGHT spine is binary
            _ => BinaryExpression::new(
                binary_operator(inner),
                leaf("x"),
                BinaryExpression::new(binary_operator(unary), leaf("y"), leaf("z")),
            )
            .into(),
        },
        _ => match shape {
            3 => IfExpression::new(leaf("c"), leaf("x"), leaf("y")).into(),
            4 => BinaryExpression::new(
                binary_operator(inner),
                leaf("x"),
                IfExpression::new(leaf("c"), leaf("y"), leaf("z")),
            )
            .into(),
            _ => UnaryExpression::new(
                unary_operator(unary),
                IfExpression::new(leaf("c"), leaf("y"), leaf("z")),
            )
            .into(),
        },
    }
}

fn assume_group<S: Source>(s: &mut S, group: u8, shape: u8) {
    match group {
        0 => s.assume(shape == 0 || shape == 1 || shape == 7),
        1 => s.assume(shape == 2 || shape == 6),
        3 => s.assume(shape == 8),
        4 => s.assume(shape == 9 || shape == 10),
        _ => s.assume(shape == 3 || shape == 4 || shape == 5),
    }
}

/// Would `LEFT OUTER z`, written without parentheses around LEFT, be parsed with LEFT as the
/// left operand of OUTER?  (`false` = parentheses are required.)
fn left_operand_survives(shape: u8, inner: u8, outer: u8) -> bool {
    match shape {
        0 | 7 => true,
        // `x INNER y OUTER z`
        1 => parses_as_left_nested(inner, outer),
        // `-x OUTER z`: the unary operand is parsed with priority 8
        2 => !(priority(outer).0 > UNARY_PRIORITY),
        // an if-expression's else branch extends as far as possible
        3 | 4 | 5 => false,
        // three-level operands (written correctly at their own level): precedence is a total
        // preorder, so the pair (INNER, OUTER) decides
        9 | 10 => parses_as_left_nested(inner, outer),
        // `-(x INNER if ...)`: the unary writer closes a binary operand in parentheses unless the
        // operator binds tighter than unary operators (`^`): `-x ^ if c then y else z OUTER w`
        8 => !(priority(inner).0 > UNARY_PRIORITY),
        // `x INNER -y OUTER z`: first the unary operand, then the binary rule
        _ => !(priority(outer).0 > UNARY_PRIORITY) && parses_as_left_nested(inner, outer),
    }
}

/// Would `x OUTER RIGHT`, written without parentheses around RIGHT, be parsed with RIGHT as
/// the right operand of OUTER?
fn right_operand_survives(shape: u8, inner: u8, outer: u8) -> bool {
    match shape {
        // `x OUTER a INNER b` (also when `b` is `-y` or an if-expression: they only extend to
        // the right)
        1 | 4 | 6 | 9 | 10 => parses_as_right_nested(outer, inner),
        // leaf, unary, if-expression, parenthese: everything to the right belongs to them
        _ => true,
    }
}

/// H-C02-prec-left
fn prec_left<S: Source>(s: &mut S, group: u8) {
    let (outer, inner, unary, shape) = (s.any_u8(), s.any_u8(), s.any_u8(), s.any_u8());
    s.assume(outer < 16 && inner < 16 && shape < 11 && (unary < 3 || (group == 4 && unary < 16)));
    assume_group(s, group, shape);
    let left = operand(group, shape, inner, unary);
    let emitted = binary_operator(outer).left_needs_parentheses(&left);
    let required = !left_operand_survives(shape, inner, outer);
    note!(s, "left operand {:?} of {:?}: parentheses emitted={} required={}", left, binary_operator(outer), emitted, required);
    observe!(group != 0 || (emitted && shape == 1), "a binary left operand gets parentheses");
    observe!(group != 0 || (!emitted && shape == 1), "a binary left operand goes without parentheses");
    observe!(group != 1 || (emitted && shape == 2), "a unary left operand of `^` gets parentheses");
    observe!(group < 2 || emitted, "an if-expression operand gets parentheses");
    match shape {
        1 | 9 | 10 => claim!(s, emitted || !required, "left binary operand: parentheses whenever the grammar would regroup `x INNER y OUTER z`"),
        2 | 6 => claim!(s, emitted || !required, "left operand ending in a unary expression: parentheses whenever OUTER binds tighter than unary operators"),
        3 | 4 | 5 | 8 => claim!(s, emitted || !required, "left operand ending in an open if-expression is always parenthesised"),
        _ => claim!(s, emitted || !required, "left leaf operand needs no parentheses"),
    }
    core::mem::forget(left);
}

pub fn prec_left_binary<S: Source>(s: &mut S) {
    prec_left(s, 0)
}
pub fn prec_left_unary<S: Source>(s: &mut S) {
    prec_left(s, 1)
}
pub fn prec_left_if<S: Source>(s: &mut S) {
    prec_left(s, 2)
}
pub fn prec_left_unary_binary_if<S: Source>(s: &mut S) {
    prec_left(s, 3)
}

/// H-C02-prec-right
fn prec_right<S: Source>(s: &mut S, group: u8) {
    let (outer, inner, unary, shape) = (s.any_u8(), s.any_u8(), s.any_u8(), s.any_u8());
    s.assume(outer < 16 && inner < 16 && shape < 11 && (unary < 3 || (group == 4 && unary < 16)));
    assume_group(s, group, shape);
    let right = operand(group, shape, inner, unary);
    let emitted = binary_operator(outer).right_needs_parentheses(&right);
    let required = !right_operand_survives(shape, inner, outer);
    note!(s, "right operand {:?} of {:?}: parentheses emitted={} required={}", right, binary_operator(outer), emitted, required);
    observe!(group != 0 || (emitted && shape == 1), "a binary right operand gets parentheses");
    observe!(group != 0 || (!emitted && shape == 1), "a binary right operand goes without parentheses");
    observe!(group == 0 || emitted || !emitted, "reached");
    claim!(s, emitted || !required, "right binary operand: parentheses whenever the grammar would regroup `x OUTER a INNER b`");
    core::mem::forget(right);
}

pub fn prec_left_nested<S: Source>(s: &mut S) {
    prec_left(s, 4)
}
pub fn prec_right_nested<S: Source>(s: &mut S) {
    prec_right(s, 4)
}
pub fn prec_right_binary<S: Source>(s: &mut S) {
    prec_right(s, 0)
}
pub fn prec_right_unary<S: Source>(s: &mut S) {
    prec_right(s, 1)
}
pub fn prec_right_if<S: Source>(s: &mut S) {
    prec_right(s, 2)
}

/// Operator tables: `precedes_unary_expression`, associativity and text.
pub fn operator_tables<S: Source>(s: &mut S) {
    let op = s.any_u8();
    s.assume(op < 16);
    let operator = binary_operator(op);
    let (left_priority, right_priority) = priority(op);
    note!(s, "operator {:?}: reference priorities ({}, {})", operator, left_priority, right_priority);
    observe!(operator.precedes_unary_expression(), "some operator binds tighter than unary");
    claim!(s, !operator.precedes_unary_expression() || left_priority > UNARY_PRIORITY,
        "an operator said to bind tighter than unary operators does (a unary operand `x OP y` is written without parentheses only then)");
    claim!(s, operator.is_right_associative() == (left_priority > right_priority), "associativity matches the reference grammar");
    claim!(s, operator.is_left_associative() != operator.is_right_associative(), "an operator is left or right associative");
    let text = operator.to_str().as_bytes();
    let expected: &[u8] = match op {
        0 => b"and", 1 => b"or", 2 => b"==", 3 => b"~=", 4 => b"<", 5 => b"<=", 6 => b">", 7 => b">=",
        8 => b"+", 9 => b"-", 10 => b"*", 11 => b"/", 12 => b"//", 13 => b"%", 14 => b"^", _ => b"..",
    };
    claim!(s, text == expected, "an operator is written with its own symbol");
    // precedence is consistent with the reference priorities
    let other = s.any_u8();
    s.assume(other < 16);
    let other_operator = binary_operator(other);
    claim!(s, operator.precedes(other_operator) == (priority(op).0.min(priority(op).1) > priority(other).0.max(priority(other).1)),
        "`precedes` orders operators like the reference priority table");
}

crate::proof!(#[kani::unwind(5)] c02_prec_left_binary => prec_left_binary);
crate::proof!(#[kani::unwind(5)] c02_prec_left_unary => prec_left_unary);
crate::proof!(#[kani::unwind(5)] c02_prec_left_if => prec_left_if);
crate::proof!(#[kani::unwind(5)] c02_prec_left_unary_binary_if => prec_left_unary_binary_if);
crate::proof!(#[kani::unwind(5)] c02_prec_left_nested => prec_left_nested);
crate::proof!(#[kani::unwind(5)] c02_prec_right_nested => prec_right_nested);
crate::proof!(#[kani::unwind(5)] c02_prec_right_binary => prec_right_binary);
crate::proof!(#[kani::unwind(5)] c02_prec_right_unary => prec_right_unary);
crate::proof!(#[kani::unwind(5)] c02_prec_right_if => prec_right_if);
crate::proof!(#[kani::unwind(6)] c02_operator_tables => operator_tables);
