//! Kani proof harnesses over darklua's real code (see /verif/DESIGN.md).
#![allow(clippy::all)]
#![allow(static_mut_refs)]

extern crate alloc;

pub mod reference;
pub mod source;
pub mod lua;
pub mod registry;

pub mod c01_compute;
pub mod c02_fuse;
pub mod c02_prec;
pub mod c02_separator;
pub mod c06_ifexpr;
pub mod c08_inline;
pub mod c08_scalar;
pub mod c08_steps;
pub mod c_scalar;
pub mod c17_args;
pub mod c17_inject;
pub mod c17_matchers;
pub mod c18_location;
pub mod c19_config;
pub mod c20_filters;
