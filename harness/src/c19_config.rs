//! C19 — what a rule writes for its file filters when it is serialized, and which generator
//! names are accepted.
use crate::source::Source;
use crate::{claim, note, observe};
use darklua_core::rules::Rule;
use serde::ser::{self, Serialize};

/// What the recording serializer saw.
#[derive(Default, Clone, Copy)]
pub struct Recorded {
    pub as_string: bool,
    pub as_map: bool,
    pub rule_key: bool,
    pub apply_key: bool,
    pub skip_key: bool,
    pub other_keys: u8,
    /// number of patterns written under `apply_to_files` / `skip_files` (a bare string counts 1)
    pub apply_patterns: u8,
    pub skip_patterns: u8,
}

#[derive(Debug)]
pub struct NoError;
impl std::fmt::Display for NoError {
    fn fmt(&self, _: &mut std::fmt::Formatter<'_>) -> std::fmt::Result {
        Ok(())
    }
}
impl std::error::Error for NoError {}
impl ser::Error for NoError {
    fn custom<T: std::fmt::Display>(_: T) -> Self {
        NoError
    }
}

/// Which of the three interesting keys a serialized map key is (0 other, 1 rule, 2 apply, 3 skip).
fn classify_key(key: &str) -> u8 {
    let bytes = key.as_bytes();
    // compared by length and first byte: the keys darklua writes are `rule`, `apply_to_files`,
    // `skip_files` and property names
    if bytes.len() == 4 && bytes[0] == b'r' && bytes[1] == b'u' && bytes[2] == b'l' && bytes[3] == b'e' {
        1
    } else if bytes.len() == 14 && bytes[0] == b'a' && bytes[5] == b'_' && bytes[9] == b'f' {
        2
    } else if bytes.len() == 10 && bytes[0] == b's' && bytes[4] == b'_' && bytes[5] == b'f' {
        3
    } else {
        0
    }
}

macro_rules! unsupported {
    ($($name:ident($($arg:ty),*);)*) => {
        $(fn $name(self, $(_: $arg),*) -> Result<Self::Ok, NoError> { Err(NoError) })*
    };
}

/// Serializer for map keys: only strings are expected.
struct KeyKind;
impl ser::Serializer for KeyKind {
    type Ok = u8;
    type Error = NoError;
    type SerializeSeq = ser::Impossible<u8, NoError>;
    type SerializeTuple = ser::Impossible<u8, NoError>;
    type SerializeTupleStruct = ser::Impossible<u8, NoError>;
    type SerializeTupleVariant = ser::Impossible<u8, NoError>;
    type SerializeMap = ser::Impossible<u8, NoError>;
    type SerializeStruct = ser::Impossible<u8, NoError>;
    type SerializeStructVariant = ser::Impossible<u8, NoError>;
    fn serialize_str(self, value: &str) -> Result<u8, NoError> {
        Ok(classify_key(value))
    }
    unsupported! {
        serialize_bool(bool); serialize_i8(i8); serialize_i16(i16); serialize_i32(i32); serialize_i64(i64);
        serialize_u8(u8); serialize_u16(u16); serialize_u32(u32); serialize_u64(u64); serialize_f32(f32);
        serialize_f64(f64); serialize_char(char); serialize_bytes(&[u8]); serialize_none(); serialize_unit();
        serialize_unit_struct(&'static str); serialize_unit_variant(&'static str, u32, &'static str);
    }
    fn serialize_some<T: ?Sized + Serialize>(self, _: &T) -> Result<u8, NoError> {
        Err(NoError)
    }
    fn serialize_newtype_struct<T: ?Sized + Serialize>(self, _: &'static str, _: &T) -> Result<u8, NoError> {
        Err(NoError)
    }
    fn serialize_newtype_variant<T: ?Sized + Serialize>(self, _: &'static str, _: u32, _: &'static str, _: &T) -> Result<u8, NoError> {
        Err(NoError)
    }
    fn serialize_seq(self, _: Option<usize>) -> Result<Self::SerializeSeq, NoError> {
        Err(NoError)
    }
    fn serialize_tuple(self, _: usize) -> Result<Self::SerializeTuple, NoError> {
        Err(NoError)
    }
    fn serialize_tuple_struct(self, _: &'static str, _: usize) -> Result<Self::SerializeTupleStruct, NoError> {
        Err(NoError)
    }
    fn serialize_tuple_variant(self, _: &'static str, _: u32, _: &'static str, _: usize) -> Result<Self::SerializeTupleVariant, NoError> {
        Err(NoError)
    }
    fn serialize_map(self, _: Option<usize>) -> Result<Self::SerializeMap, NoError> {
        Err(NoError)
    }
    fn serialize_struct(self, _: &'static str, _: usize) -> Result<Self::SerializeStruct, NoError> {
        Err(NoError)
    }
    fn serialize_struct_variant(self, _: &'static str, _: u32, _: &'static str, _: usize) -> Result<Self::SerializeStructVariant, NoError> {
        Err(NoError)
    }
}

/// Serializer for filter values: a bare string is one pattern, a sequence is its length.
struct PatternCount;
struct SeqCount(u8);
impl ser::SerializeSeq for SeqCount {
    type Ok = u8;
    type Error = NoError;
    fn serialize_element<T: ?Sized + Serialize>(&mut self, _: &T) -> Result<(), NoError> {
        self.0 += 1;
        Ok(())
    }
    fn end(self) -> Result<u8, NoError> {
        Ok(self.0)
    }
}
impl ser::Serializer for PatternCount {
    type Ok = u8;
    type Error = NoError;
    type SerializeSeq = SeqCount;
    type SerializeTuple = ser::Impossible<u8, NoError>;
    type SerializeTupleStruct = ser::Impossible<u8, NoError>;
    type SerializeTupleVariant = ser::Impossible<u8, NoError>;
    type SerializeMap = ser::Impossible<u8, NoError>;
    type SerializeStruct = ser::Impossible<u8, NoError>;
    type SerializeStructVariant = ser::Impossible<u8, NoError>;
    fn serialize_str(self, _: &str) -> Result<u8, NoError> {
        Ok(1)
    }
    fn serialize_seq(self, _: Option<usize>) -> Result<SeqCount, NoError> {
        Ok(SeqCount(0))
    }
    unsupported! {
        serialize_bool(bool); serialize_i8(i8); serialize_i16(i16); serialize_i32(i32); serialize_i64(i64);
        serialize_u8(u8); serialize_u16(u16); serialize_u32(u32); serialize_u64(u64); serialize_f32(f32);
        serialize_f64(f64); serialize_char(char); serialize_bytes(&[u8]); serialize_none(); serialize_unit();
        serialize_unit_struct(&'static str); serialize_unit_variant(&'static str, u32, &'static str);
    }
    fn serialize_some<T: ?Sized + Serialize>(self, _: &T) -> Result<u8, NoError> {
        Err(NoError)
    }
    fn serialize_newtype_struct<T: ?Sized + Serialize>(self, _: &'static str, _: &T) -> Result<u8, NoError> {
        Err(NoError)
    }
    fn serialize_newtype_variant<T: ?Sized + Serialize>(self, _: &'static str, _: u32, _: &'static str, _: &T) -> Result<u8, NoError> {
        Err(NoError)
    }
    fn serialize_tuple(self, _: usize) -> Result<Self::SerializeTuple, NoError> {
        Err(NoError)
    }
    fn serialize_tuple_struct(self, _: &'static str, _: usize) -> Result<Self::SerializeTupleStruct, NoError> {
        Err(NoError)
    }
    fn serialize_tuple_variant(self, _: &'static str, _: u32, _: &'static str, _: usize) -> Result<Self::SerializeTupleVariant, NoError> {
        Err(NoError)
    }
    fn serialize_map(self, _: Option<usize>) -> Result<Self::SerializeMap, NoError> {
        Err(NoError)
    }
    fn serialize_struct(self, _: &'static str, _: usize) -> Result<Self::SerializeStruct, NoError> {
        Err(NoError)
    }
    fn serialize_struct_variant(self, _: &'static str, _: u32, _: &'static str, _: usize) -> Result<Self::SerializeStructVariant, NoError> {
        Err(NoError)
    }
}

/// Records the shape of a serialized rule: string form, or map form and its keys. Values are
/// not serialized (what is written *under* a key is outside this harness).
pub struct Recorder;
pub struct MapRecorder(Recorded, u8);

impl ser::SerializeMap for MapRecorder {
    type Ok = Recorded;
    type Error = NoError;
    fn serialize_key<T: ?Sized + Serialize>(&mut self, key: &T) -> Result<(), NoError> {
        self.1 = key.serialize(KeyKind)?;
        match self.1 {
            1 => self.0.rule_key = true,
            2 => self.0.apply_key = true,
            3 => self.0.skip_key = true,
            _ => self.0.other_keys += 1,
        }
        Ok(())
    }
    fn serialize_value<T: ?Sized + Serialize>(&mut self, value: &T) -> Result<(), NoError> {
        match self.1 {
            2 => self.0.apply_patterns = value.serialize(PatternCount)?,
            3 => self.0.skip_patterns = value.serialize(PatternCount)?,
            _ => {}
        }
        Ok(())
    }
    fn end(self) -> Result<Recorded, NoError> {
        Ok(self.0)
    }
}

impl ser::Serializer for Recorder {
    type Ok = Recorded;
    type Error = NoError;
    type SerializeSeq = ser::Impossible<Recorded, NoError>;
    type SerializeTuple = ser::Impossible<Recorded, NoError>;
    type SerializeTupleStruct = ser::Impossible<Recorded, NoError>;
    type SerializeTupleVariant = ser::Impossible<Recorded, NoError>;
    type SerializeMap = MapRecorder;
    type SerializeStruct = ser::Impossible<Recorded, NoError>;
    type SerializeStructVariant = ser::Impossible<Recorded, NoError>;
    fn serialize_str(self, _: &str) -> Result<Recorded, NoError> {
        Ok(Recorded { as_string: true, ..Recorded::default() })
    }
    fn serialize_map(self, _: Option<usize>) -> Result<MapRecorder, NoError> {
        Ok(MapRecorder(Recorded { as_map: true, ..Recorded::default() }, 0))
    }
    unsupported! {
        serialize_bool(bool); serialize_i8(i8); serialize_i16(i16); serialize_i32(i32); serialize_i64(i64);
        serialize_u8(u8); serialize_u16(u16); serialize_u32(u32); serialize_u64(u64); serialize_f32(f32);
        serialize_f64(f64); serialize_char(char); serialize_bytes(&[u8]); serialize_none(); serialize_unit();
        serialize_unit_struct(&'static str); serialize_unit_variant(&'static str, u32, &'static str);
    }
    fn serialize_some<T: ?Sized + Serialize>(self, _: &T) -> Result<Recorded, NoError> {
        Err(NoError)
    }
    fn serialize_newtype_struct<T: ?Sized + Serialize>(self, _: &'static str, _: &T) -> Result<Recorded, NoError> {
        Err(NoError)
    }
    fn serialize_newtype_variant<T: ?Sized + Serialize>(self, _: &'static str, _: u32, _: &'static str, _: &T) -> Result<Recorded, NoError> {
        Err(NoError)
    }
    fn serialize_seq(self, _: Option<usize>) -> Result<Self::SerializeSeq, NoError> {
        Err(NoError)
    }
    fn serialize_tuple(self, _: usize) -> Result<Self::SerializeTuple, NoError> {
        Err(NoError)
    }
    fn serialize_tuple_struct(self, _: &'static str, _: usize) -> Result<Self::SerializeTupleStruct, NoError> {
        Err(NoError)
    }
    fn serialize_tuple_variant(self, _: &'static str, _: u32, _: &'static str, _: usize) -> Result<Self::SerializeTupleVariant, NoError> {
        Err(NoError)
    }
    fn serialize_struct(self, _: &'static str, _: usize) -> Result<Self::SerializeStruct, NoError> {
        Err(NoError)
    }
    fn serialize_struct_variant(self, _: &'static str, _: u32, _: &'static str, _: usize) -> Result<Self::SerializeStructVariant, NoError> {
        Err(NoError)
    }
}

/// `std::hash::RandomState::new` (getrandom is a syscall Kani cannot run): fixed keys. Nothing
/// that depends on hash-map iteration order is claimed.
#[cfg(kani)]
pub fn random_state_stub() -> std::hash::RandomState {
    unsafe { core::mem::transmute((0u64, 0u64)) }
}

/// H-C19-rule-ser: `apply` / `skip` are the numbers of patterns (constants of the call site).
fn rule_filters_written<S: Source>(s: &mut S, with_property: bool, apply: usize, skip: usize) {
    let mut rule: Box<dyn Rule> = if with_property {
        let mut rule = darklua_core::rules::RemoveAssertions::default();
        let mut properties = darklua_core::rules::RuleProperties::new();
        properties.insert("preserve_arguments_side_effects".to_owned(), false.into());
        let configured = darklua_core::rules::RuleConfiguration::configure(&mut rule, properties);
        claim!(s, configured.is_ok(), "a documented property is accepted");
        Box::new(rule)
    } else {
        Box::new(darklua_core::rules::RemoveEmptyDo::default())
    };
    #[cfg(kani)]
    let metadata = unsafe { darklua_core::verif::opaque_rule_metadata(apply, skip) };
    #[cfg(not(kani))]
    let metadata = {
        let mut metadata = darklua_core::rules::RuleMetadata::default();
        for _ in 0..apply {
            metadata.push_apply_to_filter("src/**".to_owned()).expect("pattern");
        }
        for _ in 0..skip {
            metadata.push_skip_filter("**/*.spec.lua".to_owned()).expect("pattern");
        }
        metadata
    };
    rule.set_metadata(metadata);
    let recorded = rule.serialize(Recorder);
    let recorded = match recorded {
        Ok(recorded) => recorded,
        Err(_) => Recorded::default(),
    };
    note!(s, "rule with property: {}, {} apply and {} skip pattern(s) -> string form: {}, map form: {}, keys: rule={} apply_to_files={} ({} written) skip_files={} ({} written) others={}",
        with_property, apply, skip, recorded.as_string, recorded.as_map, recorded.rule_key, recorded.apply_key, recorded.apply_patterns, recorded.skip_key, recorded.skip_patterns, recorded.other_keys);
    observe!(recorded.as_string || recorded.as_map, "the rule is serialized");
    claim!(s, recorded.as_string != recorded.as_map, "a rule is written either as its name or as an object");
    claim!(s, !recorded.as_map || recorded.rule_key, "the object form carries the rule name");
    if apply > 0 {
        claim!(s, recorded.as_map && recorded.apply_key, "a rule with apply_to_files patterns writes them (otherwise reading the configuration back runs the rule on other files)");
    }
    if skip > 0 {
        claim!(s, recorded.as_map && recorded.skip_key, "a rule with skip_files patterns writes them (otherwise reading the configuration back runs the rule on other files)");
    }
    claim!(s, recorded.apply_patterns as usize == apply, "every apply_to_files pattern of the rule is written (a bare string for one, a list otherwise)");
    claim!(s, recorded.skip_patterns as usize == skip, "every skip_files pattern of the rule is written (a bare string for one, a list otherwise)");
    // (an empty `apply_to_files: []` entry would still round-trip: its absence is not demanded)
    let _ = s.any_bool();
    core::mem::forget(rule);
}

macro_rules! rule_ser_harness {
    ($proof:ident, $body:ident, $property:expr, $apply:expr, $skip:expr) => {
        pub fn $body<S: Source>(s: &mut S) {
            rule_filters_written(s, $property, $apply, $skip)
        }
        #[cfg(kani)]
        #[kani::proof]
        #[kani::unwind(16)]
        #[kani::stub(std::hash::RandomState::new, crate::c19_config::random_state_stub)]
        fn $proof() {
            $body(&mut crate::source::KaniSource);
        }
    };
}
rule_ser_harness!(c19_rule_ser_plain_apply, rule_ser_plain_apply, false, 1, 0);
rule_ser_harness!(c19_rule_ser_plain_skip, rule_ser_plain_skip, false, 0, 1);
rule_ser_harness!(c19_rule_ser_plain_both, rule_ser_plain_both, false, 2, 1);
rule_ser_harness!(c19_rule_ser_plain_many, rule_ser_plain_many, false, 1, 3);
rule_ser_harness!(c19_rule_ser_plain_none, rule_ser_plain_none, false, 0, 0);
rule_ser_harness!(c19_rule_ser_property_apply, rule_ser_property_apply, true, 2, 0);
rule_ser_harness!(c19_rule_ser_property_skip, rule_ser_property_skip, true, 0, 2);
rule_ser_harness!(c19_rule_ser_property_both, rule_ser_property_both, true, 1, 1);
rule_ser_harness!(c19_rule_ser_property_none, rule_ser_property_none, true, 0, 0);

// ------------------------------------------------------------------------------------------------
// generator names

/// `alloc::fmt::format` on the error path of `from_str` (message text is not the subject).
#[cfg(kani)]
pub fn format_stub(_arguments: core::fmt::Arguments<'_>) -> String {
    String::new()
}

/// H-C19-generator-name: `GeneratorParameters::from_str` accepts exactly the documented names.
fn generator_name<S: Source, const N: usize>(s: &mut S) {
    use darklua_core::GeneratorParameters;
    let len = s.any_usize();
    s.assume(len <= N);
    let mut bytes = [0u8; N];
    let mut i = 0;
    while i < N {
        let c = s.any_u8();
        s.assume(c < 0x80);
        bytes[i] = c;
        i += 1;
    }
    let text = unsafe { core::str::from_utf8_unchecked(&bytes[..len]) };
    let parsed: Result<GeneratorParameters, String> = text.parse();
    let name = &bytes[..len];
    note!(s, "{:?}.parse::<GeneratorParameters>() = {:?}", text, parsed);
    observe!(parsed.is_ok(), "a generator name is accepted");
    observe!(parsed.is_err(), "a generator name is rejected");
    // the accepted spelling, ignoring ASCII case and `-` vs `_` (a more lenient reader is not a
    // violation), must name the generator that is selected
    let names = |candidate: &[u8]| -> bool {
        if candidate.len() != name.len() {
            return false;
        }
        let mut i = 0;
        let mut same = true;
        while i < N {
            if i < name.len() {
                let c = name[i].to_ascii_lowercase();
                let c = if c == b'-' { b'_' } else { c };
                same &= c == candidate[i];
            }
            i += 1;
        }
        same
    };
    match &parsed {
        Ok(GeneratorParameters::RetainLines) => {
            claim!(s, names(b"retain_lines"), "only `retain_lines` (or the legacy `retain-lines`) selects the retain_lines generator");
        }
        Ok(GeneratorParameters::Dense { column_span }) => {
            claim!(s, names(b"dense") && *column_span == 80, "only `dense` selects the dense generator, with the default column span");
        }
        Ok(GeneratorParameters::Readable { column_span }) => {
            claim!(s, names(b"readable") && *column_span == 80, "only `readable` selects the readable generator, with the default column span");
        }
        Err(_) => {}
    }
    core::mem::forget(parsed);
}
pub fn generator_name_8<S: Source>(s: &mut S) {
    generator_name::<S, 8>(s)
}
pub fn generator_name_12<S: Source>(s: &mut S) {
    generator_name::<S, 12>(s)
}

#[cfg(kani)]
#[kani::proof]
#[kani::unwind(14)]
#[kani::stub(alloc::fmt::format, crate::c19_config::format_stub)]
fn c19_generator_name_8() {
    generator_name_8(&mut crate::source::KaniSource);
}
#[cfg(kani)]
#[kani::proof]
#[kani::unwind(14)]
#[kani::stub(alloc::fmt::format, crate::c19_config::format_stub)]
fn c19_generator_name_12() {
    generator_name_12(&mut crate::source::KaniSource);
}
