//! C17 — what replaces a removed `debug.profilebegin(...)` / `debug.profileend(...)` call used
//! as an expression: the preserved arguments are still evaluated once, in order, and the
//! expression yields nil like the call to a function returning nothing did.
use crate::reference::V;
use crate::source::Source;
use crate::{claim, note, observe};
use darklua_core::nodes::*;
use darklua_core::verif as hooks;

const NAMES: [&str; 3] = ["a", "b", "c"];

/// Interprets `and` / `or` / `true` / `nil` / parentheses over the argument leaves `a`, `b`, `c`
/// (each evaluated to its symbolic value); records the order of evaluation.
struct Run {
    values: [V; 3],
    evaluated: [u8; 3],
    order_ok: bool,
    next: u8,
    unknown_shape: bool,
}

impl Run {
    fn eval(&mut self, expression: &Expression, depth: u8) -> V {
        if depth == 0 {
            self.unknown_shape = true;
            return V::Nil;
        }
        match expression {
            Expression::Nil(_) => V::Nil,
            Expression::True(_) => V::True,
            Expression::False(_) => V::False,
            Expression::Parenthese(parenthese) => self.eval(parenthese.inner_expression(), depth - 1),
            Expression::Identifier(identifier) => {
                let name = identifier.get_name().as_bytes();
                if name.len() == 1 && name[0] >= b'a' && name[0] <= b'c' {
                    let slot = (name[0] - b'a') as usize;
                    self.evaluated[slot] += 1;
                    self.order_ok &= slot as u8 == self.next;
                    self.next += 1;
                    self.values[slot]
                } else {
                    self.unknown_shape = true;
                    V::Nil
                }
            }
            Expression::Binary(binary) => {
                let left = self.eval(binary.left(), depth - 1);
                match binary.operator() {
                    BinaryOperator::And => {
                        if left.truthy() {
                            self.eval(binary.right(), depth - 1)
                        } else {
                            left
                        }
                    }
                    BinaryOperator::Or => {
                        if left.truthy() {
                            left
                        } else {
                            self.eval(binary.right(), depth - 1)
                        }
                    }
                    _ => {
                        self.unknown_shape = true;
                        V::Nil
                    }
                }
            }
            _ => {
                self.unknown_shape = true;
                V::Nil
            }
        }
    }
}

fn preserved_arguments<S: Source>(s: &mut S, count: usize) {
    let kinds = [s.any_u8(), s.any_u8(), s.any_u8()];
    s.assume(kinds[0] < 7 && kinds[1] < 7 && kinds[2] < 7);
    let values = [
        crate::lua::v_from(kinds[0], 1.0),
        crate::lua::v_from(kinds[1], 1.0),
        crate::lua::v_from(kinds[2], 1.0),
    ];
    let mut arguments = Vec::new();
    let mut i = 0;
    while i < count {
        arguments.push(Expression::identifier(NAMES[i]));
        i += 1;
    }
    let expression = hooks::expressions_as_expression(arguments);
    let mut run = Run { values, evaluated: [0; 3], order_ok: true, next: 0, unknown_shape: false };
    let result = run.eval(&expression, 10);
    note!(s, "{} preserved argument(s) with values {:?}: replacement {:?} evaluates {:?} time(s) and yields {:?}", count, &values[..count], expression, &run.evaluated[..count], result);
    observe!(count > 0 && !values[0].truthy(), "a falsy first argument");
    claim!(s, !run.unknown_shape, "the replacement is built from `and`, `or`, `true`, `nil` and the arguments");
    let mut once = true;
    let mut i = 0;
    while i < count {
        once &= run.evaluated[i] == 1;
        i += 1;
    }
    claim!(s, once && run.order_ok, "every preserved argument is evaluated exactly once, in order, whatever the values are");
    claim!(s, result == V::Nil, "the replacement yields nil, like the call to a function returning nothing");
    core::mem::forget(expression);
}

macro_rules! preserved_harness {
    ($proof:ident, $body:ident, $count:expr) => {
        pub fn $body<S: Source>(s: &mut S) {
            preserved_arguments(s, $count)
        }
        crate::proof!(#[kani::unwind(12)] $proof => $body);
    };
}
preserved_harness!(c17_preserved_arguments_0, preserved_arguments_0, 0);
preserved_harness!(c17_preserved_arguments_1, preserved_arguments_1, 1);
preserved_harness!(c17_preserved_arguments_2, preserved_arguments_2, 2);
preserved_harness!(c17_preserved_arguments_3, preserved_arguments_3, 3);
