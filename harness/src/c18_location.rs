//! C18 / C04 — where append_text_comment puts the comment and which line shift it requests:
//! the real `AppendTextComment::process` on an empty block.
use crate::source::Source;
use crate::{claim, note, observe};
use darklua_core::nodes::*;
use darklua_core::rules::{AppendTextComment, ContextBuilder, Rule};
use darklua_core::Resources;

/// Wrapper texts handed out by the stub of `AppendTextComment::text` (building them goes
/// through `format!`, out of reach): 1, 3 and 4 lines.
pub const TEXTS: [&str; 3] = ["--a", "--[[\na\n]]", "--[=[\na\nb]]\n]=]"];
pub const TEXT_LINES: [isize; 3] = [1, 3, 4];
pub static mut TEXT_CHOICE: usize = 0;

#[cfg(kani)]
pub fn text_stub(_rule: &AppendTextComment, _project: &std::path::Path) -> Result<String, String> {
    Ok(String::from(TEXTS[unsafe { TEXT_CHOICE }]))
}

#[inline(never)]
fn scenario<S: Source>(s: &mut S, at_end: bool, text: usize) {
    #[cfg(kani)]
    unsafe {
        TEXT_CHOICE = text;
        darklua_core::verif::RECORDED_SHIFT = isize::MIN;
    }
    // natively the rule builds the wrapper itself from the comment body
    let body = match text {
        0 => "a",
        1 => "a",
        _ => "a\nb]]",
    };
    let rule = if text == 1 {
        // a two-line body so that the multi-line wrapper is chosen natively
        AppendTextComment::new(if cfg!(kani) { body } else { "a\n" })
    } else {
        AppendTextComment::new(body)
    };
    let rule = if at_end { rule.at_end() } else { rule };
    let resources = Resources::from_memory();
    let context = ContextBuilder::new("project/a.lua", &resources, "")
        .with_project_location("project")
        .build();
    let mut block = Block::default();
    let result = rule.process(&mut block, &context);
    let token = block.mutate_last_token();
    let mut leading = 0;
    let mut leading_comment_first = false;
    let mut leading_newline_second = false;
    for trivia in token.iter_leading_trivia() {
        if leading == 0 {
            leading_comment_first = trivia.kind() == TriviaKind::Comment;
        }
        if leading == 1 {
            leading_newline_second = trivia.kind() == TriviaKind::Whitespace
                && trivia.try_read().map(|content| content.as_bytes() == b"\n").unwrap_or(false);
        }
        leading += 1;
    }
    let mut trailing = 0;
    let mut trailing_comment = false;
    for trivia in token.iter_trailing_trivia() {
        trailing_comment = trivia.kind() == TriviaKind::Comment;
        trailing += 1;
    }
    #[cfg(kani)]
    let shift = unsafe { darklua_core::verif::RECORDED_SHIFT };
    #[cfg(not(kani))]
    let shift = {
        // natively: observe the shift on a token with a line (a block holding `break` on line 5)
        let mut probe = Block::default().with_last_statement(LastStatement::Break(Some(Token::new_with_line(0, 5, 5))));
        let _ = rule.process(&mut probe, &context);
        match probe.get_last_statement() {
            Some(LastStatement::Break(Some(token))) => token.get_line_number().map(|l| l as isize - 5).unwrap_or(isize::MIN),
            _ => isize::MIN,
        }
    };
    note!(s, "append_text_comment at_end={} text={:?}: leading trivia={} trailing trivia={} requested line shift={}", at_end, TEXTS[text], leading, trailing, shift);
    observe!(result.is_ok(), "the rule ran");
    claim!(s, result.is_ok(), "append_text_comment succeeds on an empty block");
    if at_end {
        claim!(s, trailing == 1 && trailing_comment && leading == 0, "location end: the comment is appended after the last token");
        claim!(s, shift == 0 || shift == isize::MIN, "location end: no original line moves (no line shift is requested)");
    } else {
        claim!(s, leading == 2 && leading_comment_first && leading_newline_second && trailing == 0,
            "location start: the comment goes in front of the first token, followed by a line break");
        claim!(s, shift == TEXT_LINES[text], "location start: every original line is shifted by the number of lines of the comment");
    }
    let _ = s.any_bool();
    core::mem::forget(block);
    core::mem::forget(context);
    core::mem::forget(resources);
    core::mem::forget(rule);
}

pub fn comment_location_start_0<S: Source>(s: &mut S) {
    scenario(s, false, 0);
}
pub fn comment_location_start_1<S: Source>(s: &mut S) {
    scenario(s, false, 1);
}
pub fn comment_location_start_2<S: Source>(s: &mut S) {
    scenario(s, false, 2);
}
pub fn comment_location_end_0<S: Source>(s: &mut S) {
    scenario(s, true, 0);
}
pub fn comment_location_end_1<S: Source>(s: &mut S) {
    scenario(s, true, 1);
}
pub fn comment_location_end_2<S: Source>(s: &mut S) {
    scenario(s, true, 2);
}

macro_rules! location_proof {
    ($name:ident, $body:ident) => {
        #[cfg(kani)]
        #[kani::proof]
        #[kani::unwind(8)]
        #[kani::stub(darklua_core::rules::append_text_comment::AppendTextComment::text, crate::c18_location::text_stub)]
        #[kani::stub(<darklua_core::rules::shift_token_line::ShiftTokenLine as darklua_core::rules::FlawlessRule>::flawless_process, darklua_core::verif::shift_token_line_stub)]
        #[kani::stub(std::hash::RandomState::new, crate::c19_config::random_state_stub)]
        fn $name() {
            $body(&mut crate::source::KaniSource);
        }
    };
}
location_proof!(c18_comment_location_start_0, comment_location_start_0);
location_proof!(c18_comment_location_start_1, comment_location_start_1);
location_proof!(c18_comment_location_start_2, comment_location_start_2);
location_proof!(c18_comment_location_end_0, comment_location_end_0);
location_proof!(c18_comment_location_end_1, comment_location_end_1);
location_proof!(c18_comment_location_end_2, comment_location_end_2);
