//! C06 — remove_if_expression's per-branch step (`convert_if_branch`): `if c then r else e`
//! becomes `c and r or e` only when `r` is certainly truthy, otherwise
//! `(c and {r} or {e})[1]` with multi-valued operands parenthesised.
use crate::lua::*;
use crate::source::Source;
use crate::{claim, note, observe};
use darklua_core::nodes::*;
use darklua_core::verif as hooks;

/// Operand shapes: 0 single-valued leaf, 1 call, 2 `...`, 3 `not x`, 4 `-x`, 5 `#x` (unary
/// operators over a leaf the evaluator does not know: `not x` may well be `false`).
/// `fixed`: 255 = the shape is symbolic below `shapes`; otherwise a constant of the call site
/// (scenario trick: keeps the constructed variant concrete).
fn draw<S: Source>(s: &mut S, shapes: u8, fixed: u8) -> (Child, u8) {
    let mut child = any_child(s);
    let shape = if fixed == 255 {
        let shape = s.any_u8();
        s.assume(shape < shapes);
        shape
    } else {
        fixed
    };
    if shape >= 3 {
        // the value of the whole operand: unknown to the evaluator; `not x` is a boolean
        child.operand.known = false;
        if shape == 3 {
            s.assume(matches!(child.operand.actual, crate::reference::V::True | crate::reference::V::False));
        }
    }
    if shape != 0 {
        s.assume(!child.operand.known);
    }
    s.assume(realisable(child) && !child.effects_answer);
    (child, shape)
}

fn build(slot: usize, child: Child, shape: u8) -> Expression {
    match shape {
        1 => {
            core::mem::forget(child_expression(slot, child));
            FunctionCall::from_name(SLOT_NAMES[slot]).into()
        }
        2 => {
            core::mem::forget(child_expression(slot, child));
            Expression::variable_arguments()
        }
        3 | 4 | 5 => {
            core::mem::forget(child_expression(slot, child));
            UnaryExpression::new(
                unary_operator(shape - 3),
                Expression::identifier(SLOT_NAMES[slot]),
            )
            .into()
        }
        _ => child_expression(slot, child),
    }
}

fn operand<S: Source>(s: &mut S, slot: usize, shapes: u8, fixed: u8) -> (Expression, Child, u8) {
    let (child, shape) = draw(s, shapes, fixed);
    (build(slot, child, shape), child, shape)
}

/// Which original operand is `expression` (possibly parenthesised)?  Returns (slot, parenthesised).
fn identify(expression: &Expression, shapes: [u8; 3]) -> (usize, bool) {
    match expression {
        Expression::Parenthese(parenthese) => (identify(parenthese.inner_expression(), shapes).0, true),
        Expression::Call(call) => match call.get_prefix() {
            Prefix::Identifier(identifier) => {
                let name = identifier.get_name().as_bytes();
                if name.len() == 1 && name[0] >= b'a' && name[0] <= b'c' {
                    ((name[0] - b'a') as usize, false)
                } else {
                    (SLOTS, false)
                }
            }
            _ => (SLOTS, false),
        },
        Expression::Unary(unary) => match unary.get_expression() {
            Expression::Identifier(identifier) => {
                let name = identifier.get_name().as_bytes();
                if name.len() == 1 && name[0] >= b'a' && name[0] <= b'c' {
                    ((name[0] - b'a') as usize, false)
                } else {
                    (SLOTS, false)
                }
            }
            _ => (SLOTS, false),
        },
        Expression::VariableArguments(_) => {
            // only one operand may be `...` (assumed by the harness)
            let mut slot = SLOTS;
            let mut i = 0;
            while i < 3 {
                if shapes[i] == 2 {
                    slot = i;
                }
                i += 1;
            }
            (slot, false)
        }
        #[cfg(kani)]
        Expression::Identifier(identifier) => {
            let name = identifier.get_name().as_bytes();
            if name.len() == 1 && name[0] >= b'a' && name[0] <= b'c' {
                ((name[0] - b'a') as usize, false)
            } else {
                (SLOTS, false)
            }
        }
        _ => (SLOTS, false),
    }
}

fn single_table_value(expression: &Expression) -> Option<&Expression> {
    match expression {
        Expression::Table(table) if table.len() == 1 => match &table.get_entries()[0] {
            TableEntry::Value(value) => Some(value),
            _ => None,
        },
        _ => None,
    }
}

/// H-C06-ifexpr-step: all operand shapes symbolic (heavy: thorough tier).
pub fn if_branch<S: Source>(s: &mut S) {
    if_branch_with(s, 2, 255, 3)
}
/// One harness per shape of the result operand (constant), leaf condition and else operands.
pub fn if_branch_result_leaf<S: Source>(s: &mut S) {
    if_branch_with(s, 1, 0, 1)
}
pub fn if_branch_result_call<S: Source>(s: &mut S) {
    if_branch_with(s, 1, 1, 1)
}
pub fn if_branch_result_varargs<S: Source>(s: &mut S) {
    if_branch_with(s, 1, 2, 1)
}
pub fn if_branch_result_not<S: Source>(s: &mut S) {
    if_branch_with(s, 1, 3, 1)
}
pub fn if_branch_result_minus<S: Source>(s: &mut S) {
    if_branch_with(s, 1, 4, 1)
}
pub fn if_branch_result_length<S: Source>(s: &mut S) {
    if_branch_with(s, 1, 5, 1)
}
/// `if a then a else e` and `if a() then a() else e`: condition and result are the same expression
/// (the second evaluation of a call must not be merged with the first).
pub fn if_branch_same_leaf<S: Source>(s: &mut S) {
    if_branch_same(s, 0)
}
pub fn if_branch_same_call<S: Source>(s: &mut S) {
    if_branch_same(s, 1)
}
fn if_branch_same<S: Source>(s: &mut S, shape: u8) {
    let (child, _) = draw(s, 6, shape);
    let condition = build(0, child, shape);
    let result = build(0, child, shape);
    let (else_result, _e, e_shape) = operand(s, 2, 1, 0);
    check_branch(s, condition, result, else_result, [shape, shape, e_shape], child, shape, true);
}
fn if_branch_with<S: Source>(s: &mut S, condition_shapes: u8, result_shape: u8, else_shapes: u8) {
    let (condition, _c, c_shape) = operand(s, 0, condition_shapes, if condition_shapes == 1 { 0 } else { 255 });
    let (result, r, r_shape) = operand(s, 1, 6, result_shape);
    let (else_result, _e, e_shape) = operand(s, 2, else_shapes, if else_shapes == 1 { 0 } else { 255 });
    check_branch(s, condition, result, else_result, [c_shape, r_shape, e_shape], r, result_shape, false);
}
#[allow(clippy::too_many_arguments)]
fn check_branch<S: Source>(
    s: &mut S,
    condition: Expression,
    result: Expression,
    else_result: Expression,
    shapes: [u8; 3],
    r: Child,
    result_shape: u8,
    same: bool,
) {
    let (c_shape, r_shape, e_shape) = (shapes[0], shapes[1], shapes[2]);
    let _ = c_shape;
    // when condition and result are the same expression, both positions name slot 0
    let result_slot = if same { 0 } else { 1 };
    let mut varargs = 0;
    for shape in shapes {
        if shape == 2 {
            varargs += 1;
        }
    }
    s.assume(varargs <= 1);
    #[cfg(not(kani))]
    let originals = [condition.clone(), result.clone(), else_result.clone()];
    let converted = hooks::remove_if_expression_convert_branch(condition, result, else_result);
    note!(s, "convert_if_branch -> {:?}", converted);

    #[cfg(not(kani))]
    let identify = |expression: &Expression, _shapes: [u8; 3]| -> (usize, bool) {
        let (inner, parenthesised) = match expression {
            Expression::Parenthese(p) => (p.inner_expression(), true),
            other => (other, false),
        };
        for (slot, original) in originals.iter().enumerate() {
            if inner == original {
                return (slot, parenthesised);
            }
        }
        (SLOTS, parenthesised)
    };

    let mut plain = false;
    let mut boxed = false;
    let mut well_formed = false;
    let mut multi_values_kept_single = false;
    // `if a then a else e` with a pure, single-valued `a` may also become `a or e`
    let mut merged_pure_operand = false;
    match &converted {
        Expression::Binary(or)
            if same
                && r_shape == 0
                && !r.effects
                && or.operator() == BinaryOperator::Or
                && !matches!(or.left(), Expression::Binary(_)) =>
        {
            merged_pure_operand =
                identify(or.left(), shapes) == (0, false) && identify(or.right(), shapes) == (2, false);
        }
        Expression::Binary(or) if or.operator() == BinaryOperator::Or => {
            if let Expression::Binary(and) = or.left() {
                plain = and.operator() == BinaryOperator::And;
                well_formed = plain
                    && identify(and.left(), shapes) == (0, false)
                    && identify(and.right(), shapes) == (result_slot, false)
                    && identify(or.right(), shapes) == (2, false);
            }
        }
        Expression::Index(index) => {
            boxed = true;
            let one = matches!(index.get_index(), Expression::Number(n) if n.compute_value() == 1.0);
            if let Prefix::Parenthese(parenthese) = index.get_prefix() {
                if let Expression::Binary(or) = parenthese.inner_expression() {
                    if let (Expression::Binary(and), Some(else_value)) = (or.left(), single_table_value(or.right())) {
                        if let Some(result_value) = single_table_value(and.right()) {
                            let (result_slot_found, result_parenthesised) = identify(result_value, shapes);
                            let (else_slot, else_parenthesised) = identify(else_value, shapes);
                            well_formed = one
                                && or.operator() == BinaryOperator::Or
                                && and.operator() == BinaryOperator::And
                                && identify(and.left(), shapes) == (0, false)
                                && result_slot_found == result_slot
                                && else_slot == 2;
                            multi_values_kept_single = ((r_shape != 1 && r_shape != 2) || result_parenthesised)
                                && ((e_shape != 1 && e_shape != 2) || else_parenthesised);
                        }
                    }
                }
            }
        }
        _ => {}
    }
    observe!(plain || result_shape != 0 && result_shape != 255, "and/or form chosen");
    observe!(boxed, "boxed form chosen");
    claim!(s, plain || boxed || merged_pure_operand, "an if-expression branch becomes `c and r or e` or `(c and {r} or {e})[1]` (or `a or e` when condition and result are the same effect-free operand)");
    claim!(s, well_formed || merged_pure_operand, "the three operands appear once each, in evaluation order, in their own positions");
    if plain {
        claim!(s, r.operand.actual.truthy(), "`c and r or e` is chosen only when the result `r` cannot be false or nil");
        claim!(s, r.operand.known, "`c and r or e` is chosen only when the evaluator knows the value of `r`");
    }
    if boxed {
        claim!(s, multi_values_kept_single, "in the boxed form a call or `...` operand is parenthesised so that each table holds exactly one value");
    }
    core::mem::forget(converted);
}

#[cfg(kani)]
#[kani::proof]
#[kani::unwind(5)]
#[kani::stub(darklua_core::process::Evaluator::evaluate, crate::lua::evaluate_stub)]
fn c06_if_branch() {
    if_branch(&mut crate::source::KaniSource);
}

macro_rules! if_branch_proof {
    ($name:ident, $body:ident) => {
        #[cfg(kani)]
        #[kani::proof]
        #[kani::unwind(5)]
        #[kani::stub(darklua_core::process::Evaluator::evaluate, crate::lua::evaluate_stub)]
        fn $name() {
            $body(&mut crate::source::KaniSource);
        }
    };
}
if_branch_proof!(c06_if_branch_result_leaf, if_branch_result_leaf);
if_branch_proof!(c06_if_branch_result_call, if_branch_result_call);
if_branch_proof!(c06_if_branch_result_varargs, if_branch_result_varargs);
if_branch_proof!(c06_if_branch_result_not, if_branch_result_not);
if_branch_proof!(c06_if_branch_result_minus, if_branch_result_minus);
if_branch_proof!(c06_if_branch_result_length, if_branch_result_length);
if_branch_proof!(c06_if_branch_same_leaf, if_branch_same_leaf);
if_branch_proof!(c06_if_branch_same_call, if_branch_same_call);

// ------------------------------------------------------------------------------------------------
// the whole per-expression step on an elseif chain

/// `<Expression as Clone>::clone` restricted to the identifier leaves of this harness.
#[cfg(kani)]
pub fn clone_leaf_stub(expression: &Expression) -> Expression {
    match expression {
        Expression::Identifier(identifier) => {
            let name = identifier.get_name().as_bytes();
            let slot = if name.len() == 1 { (name[0] - b'a') as usize } else { 0 };
            Expression::identifier(SLOT_NAMES[if slot < SLOTS { slot } else { 0 }])
        }
        _ => Expression::identifier("a"),
    }
}

/// Interprets the lowered expression: which operand slot's value does it yield, given the
/// truthiness of every slot?  (`and`, `or`, parentheses, one-element tables indexed by 1.)
/// Returns `SLOTS` for anything it does not understand; a table value is encoded as
/// `TABLE + slot` and is always truthy.
const TABLE: usize = 100;
fn interpret(expression: &Expression, truthy: &[bool; SLOTS], depth: u8) -> usize {
    if depth == 0 {
        return SLOTS;
    }
    match expression {
        Expression::Identifier(identifier) => {
            let name = identifier.get_name().as_bytes();
            if name.len() == 1 && name[0] >= b'a' && ((name[0] - b'a') as usize) < SLOTS {
                (name[0] - b'a') as usize
            } else {
                SLOTS
            }
        }
        Expression::Parenthese(parenthese) => interpret(parenthese.inner_expression(), truthy, depth - 1),
        Expression::Binary(binary) => {
            let left = interpret(binary.left(), truthy, depth - 1);
            if left == SLOTS {
                return SLOTS;
            }
            let left_truthy = left >= TABLE || truthy[left];
            match binary.operator() {
                BinaryOperator::And => {
                    if left_truthy {
                        interpret(binary.right(), truthy, depth - 1)
                    } else {
                        left
                    }
                }
                BinaryOperator::Or => {
                    if left_truthy {
                        left
                    } else {
                        interpret(binary.right(), truthy, depth - 1)
                    }
                }
                _ => SLOTS,
            }
        }
        Expression::Table(_) => match single_table_value(expression) {
            Some(value) => {
                let inner = interpret(value, truthy, depth - 1);
                if inner < SLOTS {
                    TABLE + inner
                } else {
                    SLOTS
                }
            }
            None => SLOTS,
        },
        Expression::Index(index) => {
            let one = matches!(index.get_index(), Expression::Number(n) if n.compute_value() == 1.0);
            let prefix = match index.get_prefix() {
                Prefix::Parenthese(parenthese) => interpret(parenthese.inner_expression(), truthy, depth - 1),
                _ => SLOTS,
            };
            if one && prefix >= TABLE && prefix < TABLE + SLOTS {
                prefix - TABLE
            } else {
                SLOTS
            }
        }
        _ => SLOTS,
    }
}

/// H-C06-if-chain: `if a then b elseif c then d elseif e then f else g` lowered by the real
/// `process_expression`; `results_known_truthy` is a constant of each harness (scenario trick):
/// true = the evaluator knows every branch result is truthy (plain `and`/`or` chain), false = it
/// knows nothing (boxed form).
fn if_chain<S: Source>(s: &mut S, results_known_truthy: bool) {
    // slots: a=0 cond, b=1 result, c=2 cond, d=3 result, e=4 cond, f=5 result, g=6 else
    let truthy: [bool; SLOTS] = [
        s.any_bool(), s.any_bool(), s.any_bool(), s.any_bool(),
        s.any_bool(), s.any_bool(), s.any_bool(), false,
    ];
    if results_known_truthy {
        s.assume(truthy[1] && truthy[3] && truthy[5]);
    }
    #[cfg(kani)]
    unsafe {
        let result_kind = if results_known_truthy { 2 } else { 7 };
        CHILD_ANSWER_KIND = [7, result_kind, 7, result_kind, 7, result_kind, 7, 7];
    }
    let leaf = |slot: usize| -> Expression {
        #[cfg(kani)]
        {
            Expression::identifier(SLOT_NAMES[slot])
        }
        #[cfg(not(kani))]
        {
            let is_result = slot == 1 || slot == 3 || slot == 5;
            if is_result && results_known_truthy {
                // a literal the real evaluator knows to be truthy, distinguishable by slot
                Expression::from(true)
            } else {
                Expression::identifier(SLOT_NAMES[slot])
            }
        }
    };
    #[cfg(not(kani))]
    if results_known_truthy {
        // natively the three `true` results are indistinguishable: replay the unknown variant
        s.assume(false);
    }
    let mut expression: Expression = IfExpression::new(leaf(0), leaf(1), leaf(6))
        .with_branch(leaf(2), leaf(3))
        .with_branch(leaf(4), leaf(5))
        .into();
    hooks::remove_if_expression_process(&mut expression);
    let selected = interpret(&expression, &truthy, if results_known_truthy { 5 } else { 16 });
    let expected = if truthy[0] {
        1
    } else if truthy[2] {
        3
    } else if truthy[4] {
        5
    } else {
        6
    };
    note!(s, "lowered: {:?} ; selects slot {} for truthiness {:?}, Lua selects slot {}", expression, selected, truthy, expected);
    observe!(selected == 3, "the first elseif branch is selected");
    observe!(selected == 6, "the else branch is selected");
    claim!(s, !matches!(expression, Expression::If(_)), "no if-expression is left");
    claim!(s, selected < SLOTS, "the lowered expression is an and/or chain over the original operands (optionally boxed in one-element tables)");
    claim!(s, selected == expected, "the lowered chain yields the result of the first branch, in source order, whose condition holds");
    core::mem::forget(expression);
}
pub fn if_chain_plain<S: Source>(s: &mut S) {
    if_chain(s, true)
}
pub fn if_chain_boxed<S: Source>(s: &mut S) {
    if_chain(s, false)
}

macro_rules! if_chain_proof {
    ($name:ident, $body:ident, $unwind:expr) => {
        #[cfg(kani)]
        #[kani::proof]
        #[kani::unwind($unwind)]
        #[kani::stub(darklua_core::process::Evaluator::evaluate, crate::lua::evaluate_stub)]
        #[kani::stub(<darklua_core::nodes::Expression as std::clone::Clone>::clone, crate::c06_ifexpr::clone_leaf_stub)]
        fn $name() {
            $body(&mut crate::source::KaniSource);
        }
    };
}
if_chain_proof!(c06_if_chain_plain, if_chain_plain, 7);
if_chain_proof!(c06_if_chain_boxed, if_chain_boxed, 18);
