//! C08 — one inductive step per node kind of the static evaluator: the real node-level function
//! runs with its recursive calls answered by stubs under the induction hypothesis.
use crate::lua::*;
use crate::reference::*;
use crate::source::Source;
use crate::{claim, note, witness};
use darklua_core::nodes::*;
use darklua_core::process::LuaValue;

/// Is `result` a sound static answer when execution yields `outcome`?
fn sound_outcome(result: &LuaValue, outcome: Outcome) -> bool {
    match outcome {
        Outcome::Value(v) => sound(result, v),
        Outcome::AnyNumber => matches!(result, LuaValue::Number(_) | LuaValue::Unknown),
        Outcome::AnyBoolean => matches!(result, LuaValue::True | LuaValue::False | LuaValue::Unknown),
        Outcome::AnyString => matches!(result, LuaValue::String(_) | LuaValue::Unknown),
        Outcome::Any => true,
    }
}

/// Boundary doubles used as the number domain of the operators whose bit-blasted equivalence
/// (two dividers / multipliers) does not finish on all of f64.
pub const BOUNDARY_NUMBERS: [f64; 24] = [
    0.0, -0.0, 1.0, -1.0, 2.0, -2.0, 3.0, -3.0, 0.5, -0.5, 0.1, 7.0, -7.0, 1e308, -1e308, 5e-324,
    f64::INFINITY, f64::NEG_INFINITY, f64::NAN, 9007199254740992.0, 9007199254740994.0, 1.5, -1.5,
    10.0,
];

/// H-EV-binary: `evaluate_binary` over operands without strings.
/// `class`: 0 = and/or/==/~=/relational/concat on all of f64; 1 = `+`/`-` on all of f64;
/// 2 = `*` `/` `//` `%` `^` (and `+` `-`) with number operands from [`BOUNDARY_NUMBERS`].
fn ev_binary<S: Source>(s: &mut S, class: u8) {
    let op = s.any_u8();
    s.assume(op < 16);
    match class {
        0 => s.assume(op <= 7 || op == 15),
        1 => s.assume(op == 8 || op == 9),
        _ => s.assume(op >= 8 && op <= 14),
    }
    let mut left = any_child(s);
    let mut right = any_child(s);
    if class == 2 {
        let (i, j) = (s.any_u8(), s.any_u8());
        s.assume((i as usize) < BOUNDARY_NUMBERS.len() && (j as usize) < BOUNDARY_NUMBERS.len());
        if let V::Number(_) = left.operand.actual {
            left.operand.actual = V::Number(BOUNDARY_NUMBERS[i as usize]);
        }
        if let V::Number(_) = right.operand.actual {
            right.operand.actual = V::Number(BOUNDARY_NUMBERS[j as usize]);
        }
    }
    s.assume(!matches!(left.operand.actual, V::Str) && !matches!(right.operand.actual, V::Str));
    s.assume(realisable(left) && realisable(right));
    let (evaluator, _pure) = any_evaluator(s);
    let binary = BinaryExpression::new(
        binary_operator(op),
        child_expression(0, left),
        child_expression(1, right),
    );
    #[cfg(kani)]
    let result = evaluator.verif_evaluate_binary(&binary);
    #[cfg(not(kani))]
    let result = evaluator.evaluate(&Expression::from(binary.clone()));

    let (a, b) = (left.operand.actual, right.operand.actual);
    let mut outcome = lua_binary(op, a, b);
    // two *constructor* tables / functions are distinct objects; unknown ones may be the same
    if (op == 2 || op == 3) && left.operand.known && right.operand.known {
        if matches!((a, b), (V::Table, V::Table) | (V::Function, V::Function)) {
            outcome = Outcome::Value(if op == 2 { V::False } else { V::True });
        }
    }
    note!(s, "evaluate({:?}) = {:?} ; Lua: {:?} {:?} {:?} -> {:?}", binary, result, a, binary_operator(op), b, outcome);
    witness!(class == 0 || matches!(result, LuaValue::Number(_)), "arithmetic folds to a number");
    witness!(class != 0 || (matches!(result, LuaValue::True) && op >= 4 && op <= 7), "comparison folds to true");
    witness!(matches!(result, LuaValue::Unknown), "result stays unknown");
    witness!(class != 0 || (op == 0 && matches!(result, LuaValue::Nil)), "and selects a falsy left operand");
    witness!(class != 0 || (op == 1 && matches!(result, LuaValue::Table)), "or selects an operand");
    witness!(class != 0 || (op == 15 && matches!(result, LuaValue::String(_))), "concat folds");
    witness!(class != 2 || (op == 13 && matches!(result, LuaValue::Number(n) if n == 2.0)), "modulo folds to 2");
    if op <= 1 {
        claim!(s, sound_outcome(&result, outcome), "and/or: a definite result is the operand Lua selects");
    } else if op <= 3 {
        claim!(s, sound_outcome(&result, outcome), "==/~=: a definite result is what raw equality gives");
    } else if op <= 7 {
        claim!(s, sound_outcome(&result, outcome), "relational: a definite result is what IEEE comparison gives");
    } else if op <= 14 {
        claim!(s, sound_outcome(&result, outcome), "arithmetic: a definite result is the IEEE result of the operator");
    } else {
        claim!(s, sound_outcome(&result, outcome), "concat: a definite result is a string only when both operands are strings or numbers");
    }
    // an unknown operand that decides the result must keep the result unknown
    if !left.operand.known {
        claim!(s, matches!(result, LuaValue::Unknown), "an unknown left operand keeps the result unknown");
    }
    core::mem::forget(binary);
}

pub fn ev_binary_logic<S: Source>(s: &mut S) {
    ev_binary(s, 0)
}
pub fn ev_binary_addsub<S: Source>(s: &mut S) {
    ev_binary(s, 1)
}
pub fn ev_binary_arith<S: Source>(s: &mut S) {
    ev_binary(s, 2)
}

macro_rules! binary_step_proof {
    ($name:ident, $body:ident) => {
        #[cfg(kani)]
        #[kani::proof]
        #[kani::unwind(3)]
        #[kani::stub(darklua_core::process::Evaluator::evaluate, crate::lua::evaluate_stub)]
        #[kani::stub(darklua_core::process::LuaValue::number_coercion, crate::lua::number_coercion_stub)]
        #[kani::stub(darklua_core::process::LuaValue::string_coercion, crate::lua::string_coercion_stub)]
        fn $name() {
            $body(&mut crate::source::KaniSource);
        }
    };
}
binary_step_proof!(c08_ev_binary_logic, ev_binary_logic);
binary_step_proof!(c08_ev_binary_addsub, ev_binary_addsub);
binary_step_proof!(c08_ev_binary_arith, ev_binary_arith);

/// H-EV-unary: `evaluate_unary` (`not`, `-`, `#`).
pub fn ev_unary<S: Source>(s: &mut S) {
    let op = s.any_u8();
    s.assume(op < 3);
    let child = any_child(s);
    s.assume(realisable(child));
    // `-` on a string coerces through dec2flt (stubbed): strings only under `not` and `#`
    s.assume(op != 1 || !matches!(child.operand.actual, V::Str));
    let (evaluator, _pure) = any_evaluator(s);
    let unary = UnaryExpression::new(unary_operator(op), child_expression(0, child));
    #[cfg(kani)]
    let result = evaluator.verif_evaluate_unary(&unary);
    #[cfg(not(kani))]
    let result = evaluator.evaluate(&Expression::from(unary.clone()));
    let outcome = lua_unary(op, child.operand.actual);
    note!(s, "evaluate({:?}) = {:?} ; Lua -> {:?}", unary, result, outcome);
    witness!(op == 0 && matches!(result, LuaValue::True), "not folds to true");
    witness!(op == 1 && matches!(result, LuaValue::Number(n) if n == 0.0 && n.is_sign_negative()), "minus zero");
    witness!(op == 2 && matches!(result, LuaValue::Number(_)), "length of a string folds");
    claim!(s, sound_outcome(&result, outcome), "unary: a definite result is what Lua computes");
    if !child.operand.known {
        claim!(s, matches!(result, LuaValue::Unknown), "unary on an unknown operand stays unknown");
    }
    if op == 2 && !matches!(child.operand.actual, V::Str) {
        claim!(s, matches!(result, LuaValue::Unknown), "length of a non-string is never folded (tables may have __len)");
    }
    core::mem::forget(unary);
}

#[cfg(kani)]
#[kani::proof]
#[kani::unwind(3)]
#[kani::stub(darklua_core::process::Evaluator::evaluate, crate::lua::evaluate_stub)]
#[kani::stub(darklua_core::process::LuaValue::number_coercion, crate::lua::number_coercion_stub)]
fn c08_ev_unary() {
    ev_unary(&mut crate::source::KaniSource);
}

// ------------------------------------------------------------------------------------------------
// if-expressions

fn build_if(children: &[Child; 7], branches: u8) -> IfExpression {
    let base = IfExpression::new(
        child_expression(0, children[0]),
        child_expression(1, children[1]),
        child_expression(6, children[6]),
    );
    match branches {
        0 => base,
        1 => base.with_branch(child_expression(2, children[2]), child_expression(3, children[3])),
        _ => base
            .with_branch(child_expression(2, children[2]), child_expression(3, children[3]))
            .with_branch(child_expression(4, children[4]), child_expression(5, children[5])),
    }
}

/// slots: 0 condition, 1 result, (2,3) first elseif, (4,5) second elseif, 6 else result
fn any_if_children<S: Source>(s: &mut S) -> [Child; 7] {
    let mut children = [any_child(s); 7];
    let mut i = 1;
    while i < 7 {
        children[i] = any_child(s);
        i += 1;
    }
    let mut ok = true;
    for child in &children {
        ok &= realisable(*child);
    }
    s.assume(ok);
    children
}

/// The value Lua computes, and whether executing the if-expression calls out.
fn if_semantics(children: &[Child; 7], branches: u8) -> (V, bool) {
    let mut effects = children[0].effects;
    if children[0].operand.actual.truthy() {
        return (children[1].operand.actual, effects || children[1].effects);
    }
    let mut b = 0;
    while b < branches {
        let (condition, result) = (children[2 + 2 * b as usize], children[3 + 2 * b as usize]);
        effects |= condition.effects;
        if condition.operand.actual.truthy() {
            return (result.operand.actual, effects || result.effects);
        }
        b += 1;
    }
    (children[6].operand.actual, effects || children[6].effects)
}

/// H-EV-if: `evaluate_if` with 0, 1 or 2 elseif branches.
fn ev_if<S: Source>(s: &mut S, branches: u8) {
    let children = any_if_children(s);
    let (evaluator, _pure) = any_evaluator(s);
    let if_expression = build_if(&children, branches);
    #[cfg(kani)]
    let result = evaluator.verif_evaluate_if(&if_expression);
    #[cfg(not(kani))]
    let result = evaluator.evaluate(&Expression::from(if_expression.clone()));
    let (value, _) = if_semantics(&children, branches);
    note!(s, "evaluate({:?}) = {:?} ; Lua yields {:?}", if_expression, result, value);
    witness!(!matches!(result, LuaValue::Unknown), "if-expression folds");
    witness!(matches!(result, LuaValue::Unknown), "if-expression stays unknown");
    witness!(branches == 0 || (!children[0].operand.actual.truthy() && children[2].operand.actual.truthy() && !matches!(result, LuaValue::Unknown)), "an elseif branch is selected");
    claim!(s, sound(&result, value), "if-expression: a definite result is the value of the branch Lua selects");
    core::mem::forget(if_expression);
}
pub fn ev_if_0<S: Source>(s: &mut S) {
    ev_if(s, 0)
}
pub fn ev_if_1<S: Source>(s: &mut S) {
    ev_if(s, 1)
}
pub fn ev_if_2<S: Source>(s: &mut S) {
    ev_if(s, 2)
}

/// H-SE-if: `if_expression_has_side_effects` never misses an effect of the branch taken.
fn se_if<S: Source>(s: &mut S, branches: u8) {
    let children = any_if_children(s);
    let (evaluator, _pure) = any_evaluator(s);
    let if_expression = build_if(&children, branches);
    #[cfg(kani)]
    let result = evaluator.verif_if_expression_has_side_effects(&if_expression);
    #[cfg(not(kani))]
    let result = evaluator.has_side_effects(&Expression::from(if_expression.clone()));
    let (_, effects) = if_semantics(&children, branches);
    note!(s, "has_side_effects({:?}) = {} ; executing it calls out: {}", if_expression, result, effects);
    witness!(result, "if-expression reported with side effects");
    witness!(!result, "if-expression reported free of side effects");
    claim!(s, result || !effects, "if-expression: declared free of side effects only if the branch Lua takes makes no call");
    core::mem::forget(if_expression);
}
pub fn se_if_0<S: Source>(s: &mut S) {
    se_if(s, 0)
}
pub fn se_if_1<S: Source>(s: &mut S) {
    se_if(s, 1)
}
pub fn se_if_2<S: Source>(s: &mut S) {
    se_if(s, 2)
}

macro_rules! if_step_proof {
    ($name:ident, $body:ident) => {
        #[cfg(kani)]
        #[kani::proof]
        #[kani::unwind(9)]
        #[kani::stub(darklua_core::process::Evaluator::evaluate, crate::lua::evaluate_stub)]
        #[kani::stub(darklua_core::process::Evaluator::has_side_effects, crate::lua::has_side_effects_stub)]
        fn $name() {
            $body(&mut crate::source::KaniSource);
        }
    };
}
if_step_proof!(c08_ev_if_0, ev_if_0);
if_step_proof!(c08_ev_if_1, ev_if_1);
if_step_proof!(c08_ev_if_2, ev_if_2);
if_step_proof!(c08_se_if_0, se_if_0);
if_step_proof!(c08_se_if_1, se_if_1);
if_step_proof!(c08_se_if_2, se_if_2);
