//! C08 — one inductive step per node kind of the static evaluator: the real node-level function
//! runs with its recursive calls answered by stubs under the induction hypothesis.
use crate::lua::*;
use crate::reference::*;
use crate::source::Source;
use crate::{claim, note, observe};
use darklua_core::nodes::*;
use darklua_core::process::LuaValue;

/// Is `result` a sound static answer when execution yields `outcome`?
fn sound_outcome(result: &LuaValue, outcome: Outcome) -> bool {
    match outcome {
        Outcome::Value(v) => sound(result, v),
        Outcome::AnyNumber => matches!(result, LuaValue::Number(_) | LuaValue::Unknown),
        Outcome::AnyBoolean => matches!(result, LuaValue::True | LuaValue::False | LuaValue::Unknown),
        Outcome::AnyString => matches!(result, LuaValue::String(_) | LuaValue::Unknown),
        Outcome::Any => true,
    }
}

/// Boundary doubles used as the number domain of the operators whose bit-blasted equivalence
/// (two dividers / multipliers) does not finish on all of f64.
pub const BOUNDARY_NUMBERS: [f64; 24] = [
    0.0, -0.0, 1.0, -1.0, 2.0, -2.0, 3.0, -3.0, 0.5, -0.5, 0.1, 7.0, -7.0, 1e308, -1e308, 5e-324,
    f64::INFINITY, f64::NEG_INFINITY, f64::NAN, 9007199254740992.0, 9007199254740994.0, 1.5, -1.5,
    10.0,
];

/// H-EV-binary: `evaluate_binary` over operands without strings.
/// `class`: 0 = and/or/==/~=/relational/concat on all of f64; 1 = `+`/`-` on all of f64;
/// 2 = `*` `/` `//` `%` `^` (and `+` `-`) with number operands from [`BOUNDARY_NUMBERS`].
fn ev_binary<S: Source>(s: &mut S, class: u8) {
    let op = s.any_u8();
    s.assume(op < 16);
    match class {
        0 => s.assume(op <= 7 || op == 15),
        1 => s.assume(op == 8 || op == 9),
        _ => s.assume(op >= 8 && op <= 14),
    }
    let mut left = any_child(s);
    let mut right = any_child(s);
    if class == 2 {
        let (i, j) = (s.any_u8(), s.any_u8());
        s.assume((i as usize) < BOUNDARY_NUMBERS.len() && (j as usize) < BOUNDARY_NUMBERS.len());
        if let V::Number(_) = left.operand.actual {
            left.operand.actual = V::Number(BOUNDARY_NUMBERS[i as usize]);
        }
        if let V::Number(_) = right.operand.actual {
            right.operand.actual = V::Number(BOUNDARY_NUMBERS[j as usize]);
        }
    }
    s.assume(!matches!(left.operand.actual, V::Str) && !matches!(right.operand.actual, V::Str));
    s.assume(realisable(left) && realisable(right));
    let (evaluator, _pure) = any_evaluator(s);
    let binary = BinaryExpression::new(
        binary_operator(op),
        child_expression(0, left),
        child_expression(1, right),
    );
    #[cfg(kani)]
    let result = evaluator.verif_evaluate_binary(&binary);
    #[cfg(not(kani))]
    let result = evaluator.evaluate(&Expression::from(binary.clone()));

    let (a, b) = (left.operand.actual, right.operand.actual);
    let mut outcome = lua_binary(op, a, b);
    // two *constructor* tables / functions are distinct objects; unknown ones may be the same
    if (op == 2 || op == 3) && left.operand.known && right.operand.known {
        if matches!((a, b), (V::Table, V::Table) | (V::Function, V::Function)) {
            outcome = Outcome::Value(if op == 2 { V::False } else { V::True });
        }
    }
    note!(s, "evaluate({:?}) = {:?} ; Lua: {:?} {:?} {:?} -> {:?}", binary, result, a, binary_operator(op), b, outcome);
    observe!(class == 0 || matches!(result, LuaValue::Number(_)), "arithmetic folds to a number");
    observe!(class != 0 || (matches!(result, LuaValue::True) && op >= 4 && op <= 7), "comparison folds to true");
    observe!(matches!(result, LuaValue::Unknown), "result stays unknown");
    observe!(class != 0 || (op == 0 && matches!(result, LuaValue::Nil)), "and selects a falsy left operand");
    observe!(class != 0 || (op == 1 && matches!(result, LuaValue::Table)), "or selects an operand");
    observe!(class != 0 || (op == 15 && matches!(result, LuaValue::String(_))), "concat folds");
    observe!(class != 2 || (op == 13 && matches!(result, LuaValue::Number(n) if n == 2.0)), "modulo folds to 2");
    if op <= 1 {
        claim!(s, sound_outcome(&result, outcome), "and/or: a definite result is the operand Lua selects");
    } else if op <= 3 {
        claim!(s, sound_outcome(&result, outcome), "==/~=: a definite result is what raw equality gives");
    } else if op <= 7 {
        claim!(s, sound_outcome(&result, outcome), "relational: a definite result is what IEEE comparison gives");
    } else if op <= 14 {
        claim!(s, sound_outcome(&result, outcome), "arithmetic: a definite result is the IEEE result of the operator");
    } else {
        claim!(s, sound_outcome(&result, outcome), "concat: a definite result is a string only when both operands are strings or numbers");
    }
    core::mem::forget(binary);
}

pub fn ev_binary_logic<S: Source>(s: &mut S) {
    ev_binary(s, 0)
}
pub fn ev_binary_addsub<S: Source>(s: &mut S) {
    ev_binary(s, 1)
}
pub fn ev_binary_arith<S: Source>(s: &mut S) {
    ev_binary(s, 2)
}

macro_rules! binary_step_proof {
    ($name:ident, $body:ident) => {
        #[cfg(kani)]
        #[kani::proof]
        #[kani::unwind(3)]
        #[kani::stub(darklua_core::process::Evaluator::evaluate, crate::lua::evaluate_stub)]
        #[kani::stub(darklua_core::process::LuaValue::number_coercion, crate::lua::number_coercion_stub)]
        #[kani::stub(darklua_core::process::LuaValue::string_coercion, crate::lua::string_coercion_stub)]
        fn $name() {
            $body(&mut crate::source::KaniSource);
        }
    };
}
binary_step_proof!(c08_ev_binary_logic, ev_binary_logic);
binary_step_proof!(c08_ev_binary_addsub, ev_binary_addsub);
binary_step_proof!(c08_ev_binary_arith, ev_binary_arith);

/// H-EV-unary: `evaluate_unary` (`not`, `-`, `#`).
pub fn ev_unary<S: Source>(s: &mut S) {
    let op = s.any_u8();
    s.assume(op < 3);
    let child = any_child(s);
    s.assume(realisable(child));
    // `-` on a string coerces through dec2flt (stubbed): strings only under `not` and `#`
    s.assume(op != 1 || !matches!(child.operand.actual, V::Str));
    let (evaluator, _pure) = any_evaluator(s);
    let unary = UnaryExpression::new(unary_operator(op), child_expression(0, child));
    #[cfg(kani)]
    let result = evaluator.verif_evaluate_unary(&unary);
    #[cfg(not(kani))]
    let result = evaluator.evaluate(&Expression::from(unary.clone()));
    let outcome = lua_unary(op, child.operand.actual);
    note!(s, "evaluate({:?}) = {:?} ; Lua -> {:?}", unary, result, outcome);
    observe!(op == 0 && matches!(result, LuaValue::True), "not folds to true");
    observe!(op == 1 && matches!(result, LuaValue::Number(n) if n == 0.0 && n.is_sign_negative()), "minus zero");
    observe!(op == 2 && matches!(result, LuaValue::Number(_)), "length of a string folds");
    claim!(s, sound_outcome(&result, outcome), "unary: a definite result is what Lua computes");
    // (soundness for unknown operands is part of the claim above: the operand's real value is
    // symbolic, so a definite answer must be right for every value it may have)
    core::mem::forget(unary);
}

#[cfg(kani)]
#[kani::proof]
#[kani::unwind(3)]
#[kani::stub(darklua_core::process::Evaluator::evaluate, crate::lua::evaluate_stub)]
#[kani::stub(darklua_core::process::LuaValue::number_coercion, crate::lua::number_coercion_stub)]
fn c08_ev_unary() {
    ev_unary(&mut crate::source::KaniSource);
}

// ------------------------------------------------------------------------------------------------
// if-expressions

fn build_if(children: &[Child; 7], branches: u8) -> IfExpression {
    let base = IfExpression::new(
        child_expression(0, children[0]),
        child_expression(1, children[1]),
        child_expression(6, children[6]),
    );
    match branches {
        0 => base,
        1 => base.with_branch(child_expression(2, children[2]), child_expression(3, children[3])),
        _ => base
            .with_branch(child_expression(2, children[2]), child_expression(3, children[3]))
            .with_branch(child_expression(4, children[4]), child_expression(5, children[5])),
    }
}

/// slots: 0 condition, 1 result, (2,3) first elseif, (4,5) second elseif, 6 else result
fn any_if_children<S: Source>(s: &mut S) -> [Child; 7] {
    let mut children = [any_child(s); 7];
    let mut i = 1;
    while i < 7 {
        children[i] = any_child(s);
        i += 1;
    }
    let mut ok = true;
    for child in &children {
        ok &= realisable(*child);
    }
    s.assume(ok);
    children
}

/// The value Lua computes, and whether executing the if-expression calls out.
fn if_semantics(children: &[Child; 7], branches: u8) -> (V, bool) {
    let mut effects = children[0].effects;
    if children[0].operand.actual.truthy() {
        return (children[1].operand.actual, effects || children[1].effects);
    }
    let mut b = 0;
    while b < branches {
        let (condition, result) = (children[2 + 2 * b as usize], children[3 + 2 * b as usize]);
        effects |= condition.effects;
        if condition.operand.actual.truthy() {
            return (result.operand.actual, effects || result.effects);
        }
        b += 1;
    }
    (children[6].operand.actual, effects || children[6].effects)
}

/// H-EV-if: `evaluate_if` with 0, 1 or 2 elseif branches.
fn ev_if<S: Source>(s: &mut S, branches: u8) {
    let children = any_if_children(s);
    let (evaluator, _pure) = any_evaluator(s);
    let if_expression = build_if(&children, branches);
    #[cfg(kani)]
    let result = evaluator.verif_evaluate_if(&if_expression);
    #[cfg(not(kani))]
    let result = evaluator.evaluate(&Expression::from(if_expression.clone()));
    let (value, _) = if_semantics(&children, branches);
    note!(s, "evaluate({:?}) = {:?} ; Lua yields {:?}", if_expression, result, value);
    observe!(!matches!(result, LuaValue::Unknown), "if-expression folds");
    observe!(matches!(result, LuaValue::Unknown), "if-expression stays unknown");
    observe!(branches == 0 || (!children[0].operand.actual.truthy() && children[2].operand.actual.truthy() && !matches!(result, LuaValue::Unknown)), "an elseif branch is selected");
    claim!(s, sound(&result, value), "if-expression: a definite result is the value of the branch Lua selects");
    core::mem::forget(if_expression);
}
pub fn ev_if_0<S: Source>(s: &mut S) {
    ev_if(s, 0)
}
pub fn ev_if_1<S: Source>(s: &mut S) {
    ev_if(s, 1)
}
pub fn ev_if_2<S: Source>(s: &mut S) {
    ev_if(s, 2)
}

/// H-SE-if: `if_expression_has_side_effects` never misses an effect of the branch taken.
fn se_if<S: Source>(s: &mut S, branches: u8) {
    let children = any_if_children(s);
    let (evaluator, _pure) = any_evaluator(s);
    let if_expression = build_if(&children, branches);
    #[cfg(kani)]
    let result = evaluator.verif_if_expression_has_side_effects(&if_expression);
    #[cfg(not(kani))]
    let result = evaluator.has_side_effects(&Expression::from(if_expression.clone()));
    let (_, effects) = if_semantics(&children, branches);
    note!(s, "has_side_effects({:?}) = {} ; executing it calls out: {}", if_expression, result, effects);
    observe!(result, "if-expression reported with side effects");
    observe!(!result, "if-expression reported free of side effects");
    claim!(s, result || !effects, "if-expression: declared free of side effects only if the branch Lua takes makes no call");
    core::mem::forget(if_expression);
}
pub fn se_if_0<S: Source>(s: &mut S) {
    se_if(s, 0)
}
pub fn se_if_1<S: Source>(s: &mut S) {
    se_if(s, 1)
}
pub fn se_if_2<S: Source>(s: &mut S) {
    se_if(s, 2)
}

macro_rules! if_step_proof {
    ($name:ident, $body:ident) => {
        #[cfg(kani)]
        #[kani::proof]
        #[kani::unwind(9)]
        #[kani::stub(darklua_core::process::Evaluator::evaluate, crate::lua::evaluate_stub)]
        #[kani::stub(darklua_core::process::Evaluator::has_side_effects, crate::lua::has_side_effects_stub)]
        fn $name() {
            $body(&mut crate::source::KaniSource);
        }
    };
}
if_step_proof!(c08_ev_if_0, ev_if_0);
if_step_proof!(c08_ev_if_1, ev_if_1);
if_step_proof!(c08_ev_if_2, ev_if_2);
if_step_proof!(c08_se_if_0, se_if_0);
if_step_proof!(c08_se_if_1, se_if_1);
if_step_proof!(c08_se_if_2, se_if_2);

// ------------------------------------------------------------------------------------------------
// side-effect helper arms

/// Prefix shapes (group 0): 0 `x`, 1 `f()`, 2 `(a)`; (group 1): 3 `P.name`, 4 `P[b]` where `P` is
/// one of the group-0 shapes chosen by `inner`.
fn simple_prefix(inner: u8, child: Child) -> (Prefix, bool) {
    match inner {
        0 => (Prefix::from_name("x"), false),
        1 => (FunctionCall::from_name("f").into(), true),
        _ => (ParentheseExpression::new(child_expression(0, child)).into(), child.effects),
    }
}

fn any_prefix<S: Source>(s: &mut S, group: u8, pure: bool) -> (Prefix, bool) {
    let inner = s.any_u8();
    s.assume(inner < 3);
    let child_a = any_child(s);
    let child_b = any_child(s);
    s.assume(realisable(child_a) && realisable(child_b));
    let (base, base_effects) = simple_prefix(inner, child_a);
    if group == 0 {
        return (base, base_effects);
    }
    let indexed = s.any_bool();
    if indexed {
        (
            IndexExpression::new(base, child_expression(1, child_b)).into(),
            base_effects || child_b.effects || !pure,
        )
    } else {
        (FieldExpression::new(base, "name").into(), base_effects || !pure)
    }
}

/// H-SE-prefix / -field / -index / -type-inst: the private helper arms of `has_side_effects`.
/// `arm`: 0 prefix_has_side_effects, 1 field_has_side_effects, 2 index_has_side_effects,
/// 3 type_instantiation_has_side_effects.
fn se_prefix<S: Source>(s: &mut S, group: u8, arm: u8) {
    let (evaluator, pure) = any_evaluator(s);
    let (prefix, effects) = any_prefix(s, group, pure);
    let key = any_child(s);
    s.assume(realisable(key));
    let (result, model) = match arm {
        0 => {
            let result = evaluator.verif_prefix_has_side_effects(&prefix);
            core::mem::forget(prefix);
            (result, effects)
        }
        1 => {
            let field = FieldExpression::new(prefix, "field");
            let result = evaluator.verif_field_has_side_effects(&field);
            core::mem::forget(field);
            (result, effects || !pure)
        }
        2 => {
            let index = IndexExpression::new(prefix, child_expression(2, key));
            let result = evaluator.verif_index_has_side_effects(&index);
            core::mem::forget(index);
            (result, effects || key.effects || !pure)
        }
        _ => {
            let instantiation = TypeInstantiationExpression::new(prefix, Vec::new());
            let result = evaluator.verif_type_instantiation_has_side_effects(&instantiation);
            core::mem::forget(instantiation);
            (result, effects)
        }
    };
    note!(s, "helper arm {} on a prefix of group {}: has side effects = {}, model = {}", arm, group, result, model);
    observe!(result, "reported with side effects");
    observe!(!result, "reported free of side effects");
    observe!(!result && pure, "free of side effects under the pure-metamethods assumption");
    match arm {
        0 => claim!(s, result || !model, "prefix: free of side effects only if no call is made and, unless metamethods are assumed pure, nothing is indexed"),
        1 => claim!(s, result || !model, "field access: free of side effects only if metamethods are assumed pure and the prefix makes no call"),
        2 => claim!(s, result || !model, "index access: free of side effects only if metamethods are assumed pure and neither prefix nor key makes a call"),
        _ => claim!(s, result || !model, "type instantiation: free of side effects only if its prefix is"),
    }
}

macro_rules! se_prefix_harness {
    ($proof:ident, $body:ident, $group:expr, $arm:expr) => {
        pub fn $body<S: Source>(s: &mut S) {
            se_prefix(s, $group, $arm)
        }
        #[cfg(kani)]
        #[kani::proof]
        #[kani::unwind(4)]
        #[kani::stub(darklua_core::process::Evaluator::evaluate, crate::lua::evaluate_stub)]
        #[kani::stub(darklua_core::process::Evaluator::has_side_effects, crate::lua::has_side_effects_stub)]
        fn $proof() {
            $body(&mut crate::source::KaniSource);
        }
    };
}
se_prefix_harness!(c08_se_prefix_simple, se_prefix_simple, 0, 0);
se_prefix_harness!(c08_se_prefix_nested, se_prefix_nested, 1, 0);
se_prefix_harness!(c08_se_field, se_field, 1, 1);
se_prefix_harness!(c08_se_index, se_index, 1, 2);
se_prefix_harness!(c08_se_type_instantiation, se_type_instantiation, 1, 3);

/// H-SE-table-entry and `maybe_metatable`.
pub fn se_table_entry<S: Source>(s: &mut S) {
    let (evaluator, _pure) = any_evaluator(s);
    let kind = s.any_u8();
    s.assume(kind < 3);
    let key = any_child(s);
    let value = any_child(s);
    s.assume(realisable(key) && realisable(value));
    let (entry, model): (TableEntry, bool) = match kind {
        0 => (TableFieldEntry::new("field", child_expression(1, value)).into(), value.effects),
        1 => (
            TableIndexEntry::new(child_expression(0, key), child_expression(1, value)).into(),
            key.effects || value.effects,
        ),
        _ => (TableEntry::from_value(child_expression(1, value)), value.effects),
    };
    let result = evaluator.verif_table_entry_has_side_effects(&entry);
    note!(s, "table entry kind {}: has side effects = {}, model = {}", kind, result, model);
    observe!(result, "entry with side effects");
    observe!(!result && kind == 1, "index entry free of side effects");
    claim!(s, result || !model, "table entry: free of side effects only if neither its key nor its value makes a call");
    core::mem::forget(entry);

    let operand = any_operand(s);
    let maybe = evaluator.verif_maybe_metatable(&answer(operand));
    claim!(s, maybe || operand.known, "a value the evaluator does not know may carry a metatable");
}
#[cfg(kani)]
#[kani::proof]
#[kani::unwind(4)]
#[kani::stub(darklua_core::process::Evaluator::evaluate, crate::lua::evaluate_stub)]
#[kani::stub(darklua_core::process::Evaluator::has_side_effects, crate::lua::has_side_effects_stub)]
fn c08_se_table_entry() {
    se_table_entry(&mut crate::source::KaniSource);
}

/// H-MV: an expression said to yield a single value does (R-ARITY: only calls and `...` can
/// yield zero or several values; parentheses, `and`/`or` and every other form yield exactly one).
fn multiple_values<S: Source>(s: &mut S, group: u8) {
    let kind = s.any_u8();
    s.assume(kind < 7);
    let op = s.any_u8();
    s.assume(op < 16);
    let (evaluator, _pure) = any_evaluator(s);
    let call = || Expression::from(FunctionCall::from_name("f"));
    let (expression, may_yield_many): (Expression, bool) = if group == 0 {
        match kind {
            0 => (call(), true),
            1 => (Expression::variable_arguments(), true),
            2 => (FunctionCall::from_name("f").with_method("m").into(), true),
            3 => (ParentheseExpression::new(call()).into(), false),
            4 => (BinaryExpression::new(binary_operator(op), call(), call()).into(), false),
            5 => (UnaryExpression::new(UnaryOperator::Not, call()).into(), false),
            _ => (Expression::identifier("x"), false),
        }
    } else {
        match kind {
            0 => (FieldExpression::new(Prefix::from_name("x"), "y").into(), false),
            1 => (IndexExpression::new(Prefix::from_name("x"), call()).into(), false),
            2 => (IfExpression::new(true, call(), call()).into(), false),
            3 => (TableExpression::default().into(), false),
            4 => (Expression::nil(), false),
            5 => (Expression::from(true), false),
            _ => (Expression::from(false), false),
        }
    };
    let answer = evaluator.can_return_multiple_values(&expression);
    note!(s, "can_return_multiple_values({:?}) = {}", expression, answer);
    observe!(group != 0 || answer, "some expression may yield several values");
    observe!(group != 0 || (!answer && kind == 4), "and/or yields one value");
    observe!(group != 1 || !answer, "a single-valued form is recognised");
    if group == 0 && kind <= 2 {
        claim!(s, answer || !may_yield_many, "a call or `...` is never said to yield a single value");
    } else {
        claim!(s, answer || !may_yield_many, "single-value verdicts are only given to single-valued forms");
    }
    core::mem::forget(expression);
}
pub fn multiple_values_calls<S: Source>(s: &mut S) {
    multiple_values(s, 0)
}
pub fn multiple_values_others<S: Source>(s: &mut S) {
    multiple_values(s, 1)
}
crate::proof!(#[kani::unwind(4)] c08_multiple_values_calls => multiple_values_calls);
crate::proof!(#[kani::unwind(4)] c08_multiple_values_others => multiple_values_others);
