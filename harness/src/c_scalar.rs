//! Scalar kernels for C04, C06, C13, C14, C18 (and their panic-freedom for C12).
use crate::reference::*;
use crate::source::Source;
use crate::{claim, note, proof, observe};
use darklua_core::nodes::*;
use darklua_core::verif as hooks;
use darklua_core::verif::generator_utils as utils;

fn any_ascii<S: Source, const N: usize>(s: &mut S, min_len: usize) -> ([u8; N], usize) {
    let len = s.any_usize();
    s.assume(len >= min_len && len <= N);
    let mut bytes = [0u8; N];
    let mut i = 0;
    while i < N {
        let c = s.any_u8();
        s.assume(c < 0x80);
        bytes[i] = c;
        i += 1;
    }
    (bytes, len)
}

// ------------------------------------------------------------------------------------------ C14
/// H-ID: `is_valid_identifier` accepts exactly the Lua names that are not reserved words.
fn valid_identifier<S: Source, const N: usize>(s: &mut S) {
    let (bytes, len) = any_ascii::<S, N>(s, 0);
    let text = unsafe { core::str::from_utf8_unchecked(&bytes[..len]) };
    let result = hooks::is_valid_identifier(text);
    let expected = is_lua_name(&bytes[..len]);
    note!(s, "is_valid_identifier({:?}) = {} ; Lua name: {}", text, result, expected);
    observe!(result && len >= 2, "an identifier of 2+ characters is accepted");
    observe!(!result && is_reserved(&bytes[..len]), "a reserved word is rejected");
    observe!(!result && len >= 1 && is_digit(bytes[0]), "a leading digit is rejected");
    claim!(s, !result || expected, "a key written as `name =` / `.name` is a Lua name and not a reserved word");
    // (the converse - every Lua name is recognised - is not required by any property: writing
    // `["name"] =` / `t["name"]` for a valid name is still correct)
}
pub fn valid_identifier_4<S: Source>(s: &mut S) {
    valid_identifier::<S, 4>(s)
}
pub fn valid_identifier_6<S: Source>(s: &mut S) {
    valid_identifier::<S, 6>(s)
}
pub fn valid_identifier_8<S: Source>(s: &mut S) {
    valid_identifier::<S, 8>(s)
}
proof!(#[kani::unwind(10)] c14_valid_identifier_4 => valid_identifier_4);
proof!(#[kani::unwind(12)] c14_valid_identifier_6 => valid_identifier_6);
proof!(#[kani::unwind(24)] c14_valid_identifier_8 => valid_identifier_8);

/// H-ID-unicode: strings of up to 3 characters below U+0800 (one- and two-byte UTF-8): only
/// ASCII letters, digits and `_` make a Lua name.
pub fn valid_identifier_unicode<S: Source>(s: &mut S) {
    let len = s.any_usize();
    s.assume(len >= 1 && len <= 3);
    let mut buffer = [0u8; 6];
    let mut size = 0;
    let mut all_name_characters = true;
    let mut first_is_digit = false;
    let mut i = 0;
    while i < 3 {
        let code = s.any_u32();
        s.assume(code < 0x800);
        if i < len {
            if code < 0x80 {
                buffer[size] = code as u8;
                size += 1;
            } else {
                buffer[size] = 0xC0 | (code >> 6) as u8;
                buffer[size + 1] = 0x80 | (code & 0x3F) as u8;
                size += 2;
            }
            let c = code as u8;
            let ascii_name = code < 0x80 && (is_alpha(c) || is_digit(c));
            all_name_characters &= ascii_name;
            if i == 0 {
                first_is_digit = code < 0x80 && is_digit(c);
            }
        }
        i += 1;
    }
    // the encoding above is well-formed UTF-8 by construction
    let text = unsafe { core::str::from_utf8_unchecked(&buffer[..size]) };
    let result = hooks::is_valid_identifier(text);
    let expected = all_name_characters && !first_is_digit && !is_reserved(&buffer[..size]);
    note!(s, "is_valid_identifier({:?}) = {} ; Lua name: {}", text, result, expected);
    observe!(result, "an identifier is accepted");
    observe!(!result && size > len, "a string with a non-ASCII character is rejected");
    claim!(s, !result || expected, "a key containing a non-ASCII character is never written as a bare name");
}
proof!(#[kani::unwind(10)] c14_valid_identifier_unicode => valid_identifier_unicode);

// ------------------------------------------------------------------------------------------ C18
/// H-SLC: `is_single_line_comment` is false exactly for comments opening a long bracket.
fn single_line_comment<S: Source, const N: usize>(s: &mut S) {
    let (bytes, len) = any_ascii::<S, N>(s, 2);
    s.assume(bytes[0] == b'-' && bytes[1] == b'-');
    let text = unsafe { core::str::from_utf8_unchecked(&bytes[..len]) };
    let result = hooks::is_single_line_comment(text);
    let long = is_long_comment(&bytes[..len]);
    note!(s, "is_single_line_comment({:?}) = {} ; opens a long bracket per the Lua lexer: {}", text, result, long);
    observe!(!result, "a long comment is recognised");
    observe!(result && len > 3 && bytes[2] == b'[', "a line comment starting with `--[`");
    claim!(s, result || long, "a line comment is never classified as a long comment (the generator must break the line after it)");
    claim!(s, !result || !long, "a long comment is never classified as a line comment");
}
pub fn single_line_comment_7<S: Source>(s: &mut S) {
    single_line_comment::<S, 7>(s)
}
pub fn single_line_comment_9<S: Source>(s: &mut S) {
    single_line_comment::<S, 9>(s)
}
pub fn single_line_comment_12<S: Source>(s: &mut S) {
    single_line_comment::<S, 12>(s)
}
proof!(#[kani::unwind(12)] c18_single_line_comment_7 => single_line_comment_7);
proof!(#[kani::unwind(14)] c18_single_line_comment_9 => single_line_comment_9);
proof!(#[kani::unwind(17)] c18_single_line_comment_12 => single_line_comment_12);

// ------------------------------------------------------------------------------------------ C04
/// H-C04-shift: shifting a token's line moves it by exactly `amount` (saturating at the ends of
/// `usize`), never touches tokens without a line, and replacing a token's content keeps its line.
pub fn token_shift<S: Source>(s: &mut S) {
    let line = s.any_usize();
    let amount = s.any_isize();
    let kind = s.any_u8();
    s.assume(kind < 3);
    let mut token = match kind {
        0 => Token::new_with_line(0, 1, line),
        1 => Token::from_position(Position::line_number("x", line)),
        _ => Token::from_content("x"),
    };
    let before = token.get_line_number();
    hooks::token_shift_line(&mut token, amount);
    let after = token.get_line_number();
    let expected = if amount >= 0 {
        line.checked_add(amount as usize).unwrap_or(usize::MAX)
    } else {
        line.saturating_sub(amount.unsigned_abs())
    };
    note!(s, "shift_token_line(line {:?}, {}) -> {:?}", before, amount, after);
    observe!(kind == 0 && amount < 0 && after == Some(0), "shift saturates at line 0");
    observe!(kind == 1 && amount > 0, "shift down");
    match kind {
        0 | 1 => {
            claim!(s, before == Some(line), "a parsed token reports its line");
            claim!(s, after == Some(expected), "shift_token_line moves the recorded line by exactly the amount");
        }
        _ => {
            claim!(s, before.is_none() && after.is_none(), "a token without a line stays without a line");
        }
    }
    token.replace_with_content("y");
    claim!(s, token.get_line_number() == after, "replacing the content of a token keeps its line");
    core::mem::forget(token);
}
proof!(c04_token_shift => token_shift);

// ------------------------------------------------------------------------------------------ C13
/// H-C13-raw-safe / long-safe: bytes the string writers emit *raw* are bytes every Lua lexer
/// reads back as themselves.
pub fn raw_bytes<S: Source>(s: &mut S) {
    let c = s.any_u8();
    let raw_in_quotes = !utils::needs_escaping(c);
    let raw_in_long_bracket = !utils::needs_quoted_string(&c);
    let printable = c >= 0x20 && c <= 0x7e;
    note!(s, "byte {:#04x}: raw in quoted string: {}, raw in long bracket: {}", c, raw_in_quotes, raw_in_long_bracket);
    observe!(raw_in_quotes, "some byte is written raw");
    observe!(!raw_in_quotes && printable, "backslash is escaped");
    observe!(raw_in_long_bracket && !printable, "newline allowed in long brackets");
    // (quoted form: the writer pushes raw bytes as `char`s, so a raw byte >= 0x80 would be re-encoded as two bytes; a raw backslash
    // starts an escape, a raw line break ends the literal. Long brackets: lexers turn CR / CRLF into LF. Other control bytes, e.g. a
    // tab, are read back unchanged: writing them raw would be unusual but not a violation.)
    claim!(s, !raw_in_quotes || (c < 0x80 && c != b'\\' && c != b'\n' && c != b'\r'), "a byte written raw inside quotes is ASCII and neither a backslash nor a line break");
    claim!(s, !raw_in_long_bracket || c != b'\r', "a carriage return is never copied raw into a long bracket string (lexers read it back as a line feed)");
}
proof!(c13_raw_bytes => raw_bytes);

/// The quote chosen for a string is one of the two quote characters, and is a character absent
/// from the value whenever one of the two is absent.
pub fn quote_symbol<S: Source>(s: &mut S) {
    quote_symbol_sized::<S, 4>(s)
}
pub fn quote_symbol_8<S: Source>(s: &mut S) {
    quote_symbol_sized::<S, 8>(s)
}
fn quote_symbol_sized<S: Source, const N: usize>(s: &mut S) {
    let (bytes, len) = {
        let len = s.any_usize();
        s.assume(len <= N);
        let mut bytes = [0u8; N];
        let mut i = 0;
        while i < N {
            bytes[i] = s.any_u8();
            i += 1;
        }
        (bytes, len)
    };
    let value = &bytes[..len];
    let quote = utils::get_quote_symbol(value);
    note!(s, "get_quote_symbol({:?}) = {:?}", value, quote);
    let mut has_single = false;
    let mut has_double = false;
    for c in value {
        has_single |= *c == b'\'';
        has_double |= *c == b'"';
    }
    observe!(quote == '"', "double quotes chosen");
    observe!(has_single && has_double, "both quotes present");
    claim!(s, quote == '\'' || quote == '"', "the quoting character is a quote");
    // (choosing the quote that avoids escapes is an optimisation, not part of the property)
}
proof!(#[kani::unwind(6)] c13_quote_symbol => quote_symbol);
proof!(#[kani::unwind(10)] c13_quote_symbol_8 => quote_symbol_8);

/// H-C13-special-floats: `Expression::from` on NaN, infinities and zeros builds `0/0`, `1/0`,
/// `-1/0` (unary minus of `1`) and keeps the sign of zero.
pub fn special_floats<S: Source>(s: &mut S) {
    let value = s.any_f64();
    s.assume(value.is_nan() || value.is_infinite() || value == 0.0);
    let expression = Expression::from(value);
    let mut ok = false;
    match &expression {
        Expression::Binary(binary) => {
            let slash = binary.operator() == BinaryOperator::Slash;
            let zero_right = matches!(binary.right(), Expression::Number(n) if n.compute_value().to_bits() == 0);
            if value.is_nan() {
                ok = slash && zero_right && matches!(binary.left(), Expression::Number(n) if n.compute_value().to_bits() == 0);
            } else if value > 0.0 {
                ok = slash && zero_right && matches!(binary.left(), Expression::Number(n) if n.compute_value() == 1.0);
            } else {
                ok = slash
                    && zero_right
                    && matches!(binary.left(), Expression::Unary(u)
                        if u.operator() == UnaryOperator::Minus
                            && matches!(u.get_expression(), Expression::Number(n) if n.compute_value() == 1.0));
            }
        }
        Expression::Number(number) => {
            ok = value == 0.0 && number.compute_value().to_bits() == value.to_bits();
        }
        _ => {}
    }
    observe!(value.is_nan(), "nan");
    observe!(value == f64::NEG_INFINITY, "negative infinity");
    observe!(value == 0.0 && value.is_sign_negative(), "negative zero");
    note!(s, "Expression::from({:?}) = {:?}", value, expression);
    claim!(s, ok, "NaN, infinities and signed zeros become 0/0, 1/0, -1/0 and a zero literal of the same sign");
    core::mem::forget(expression);
}
proof!(#[kani::unwind(3)] c13_special_floats => special_floats);

// ------------------------------------------------------------------------------------------ C06
/// H-C06-luau-number: the binary literal -> hexadecimal literal conversion keeps the value.
pub fn luau_number<S: Source>(s: &mut S) {
    let raw = s.any_u64();
    let upper = s.any_bool();
    let mut number = NumberExpression::from(BinaryNumber::new(raw, upper));
    let before = number.compute_value();
    hooks::convert_luau_number_step(&mut number, "");
    let after = number.compute_value();
    note!(s, "convert_luau_number on 0b{:b}: {:?}", raw, number);
    claim!(s, !matches!(number, NumberExpression::Binary(_)), "no binary literal survives convert_luau_number");
    claim!(s, after.to_bits() == before.to_bits(), "converting a binary literal keeps its value");
    claim!(s, matches!(&number, NumberExpression::Hex(hex) if hex.get_raw_integer() == raw && hex.get_exponent().is_none()),
        "the hexadecimal literal carries the same integer and no exponent");
    observe!(raw > (1u64 << 53), "integer beyond 2^53");
    core::mem::forget(number);
}
proof!(#[kani::unwind(34)] c06_luau_number => luau_number);

// ------------------------------------------------------------------------------------------ C12
fn identifier_character<S: Source>(s: &mut S) -> char {
    let c = s.any_u8();
    s.assume(is_alpha(c) || is_digit(c));
    c as char
}

/// H-C12-sortcmp: the character order rename_variables sorts generated names with is a strict
/// weak order on the identifier alphabet (`sort_by` may panic on an inconsistent comparator
/// since Rust 1.81, and the order decides which names are handed out first).
pub fn sort_char_order<S: Source>(s: &mut S) {
    use core::cmp::Ordering::*;
    let (a, b, c) = (identifier_character(s), identifier_character(s), identifier_character(s));
    let ab = hooks::rename_sort_char(a, b);
    let ba = hooks::rename_sort_char(b, a);
    let bc = hooks::rename_sort_char(b, c);
    let ac = hooks::rename_sort_char(a, c);
    note!(s, "sort_char({:?},{:?})={:?} ({:?},{:?})={:?} ({:?},{:?})={:?} ({:?},{:?})={:?}", a, b, ab, b, a, ba, b, c, bc, a, c, ac);
    observe!(ab == Less, "some pair is ordered");
    claim!(s, hooks::rename_sort_char(a, a) == Equal, "the order is reflexive");
    claim!(s, ab == ba.reverse(), "the order is antisymmetric: cmp(a, b) is the reverse of cmp(b, a)");
    claim!(s, !(ab == Less && bc == Less) || ac == Less, "the order is transitive");
    claim!(s, !(ab == Equal && bc == Equal) || ac == Equal, "equivalence is transitive");
    claim!(s, !(ab == Equal && bc == Less) || ac == Less, "equivalent characters compare alike");
}
proof!(c12_sort_char_order => sort_char_order);

// ------------------------------------------------------------------------------------------ C13 quoting
/// `escape` builds its text with `format!` (out of reach): a fixed two-character marker `\?`.
#[cfg(kani)]
pub fn escape_stub(_character: u8, _next: Option<u8>) -> String {
    String::from("\\?")
}

/// H-C13-quoted: the quoted form of a short ASCII string opens and closes with the chosen quote,
/// never contains that quote unescaped, and writes raw only bytes a Lua lexer reads as themselves.
pub fn quoted_form<S: Source>(s: &mut S) {
    let len = s.any_usize();
    s.assume(len >= 1 && len <= 2);
    let bytes = [s.any_u8(), s.any_u8()];
    s.assume(bytes[0] < 0x80 && bytes[1] < 0x80);
    let value = &bytes[..len];
    let written = utils::write_quoted(value);
    let text = written.as_bytes();
    note!(s, "write_quoted({:?}) = {:?}", value, written);
    let n = text.len();
    observe!(n > len + 2, "some byte is escaped");
    claim!(s, n >= 2 && (text[0] == b'\'' || text[0] == b'"') && text[n - 1] == text[0], "a quoted string opens and closes with the same quote character");
    if n >= 2 {
        let quote = text[0];
        let mut i = 1;
        let mut ok = true;
        let mut escaped = false;
        while i + 1 < n {
            let c = text[i];
            if escaped {
                escaped = false;
            } else if c == b'\\' {
                escaped = true;
            } else {
                // a raw byte: not the quote, printable
                ok &= c != quote && c >= 0x20 && c <= 0x7e;
            }
            i += 1;
        }
        claim!(s, ok && !escaped, "inside the quotes every quote character and every non-printable byte is written as an escape");
    }
    core::mem::forget(written);
}

#[cfg(kani)]
#[kani::proof]
#[kani::unwind(8)]
#[kani::stub(darklua_core::generator::utils::escape, crate::c_scalar::escape_stub)]
fn c13_quoted_form() {
    quoted_form(&mut crate::source::KaniSource);
}
