//! C08 — the arms written inline in `Evaluator::has_side_effects` (Binary, Unary, Parenthese):
//! the real function is entered on a two-level tree; `evaluate` and the five helper functions it
//! dispatches to are stubbed, the recursive call on the leaf children runs for real.
use crate::lua::*;
use crate::reference::*;
use crate::source::Source;
use crate::{claim, note, observe};
use darklua_core::nodes::*;
use darklua_core::process::{Evaluator, LuaValue};

/// What the stubbed `table_entry_has_side_effects` answers for the entries of table children.
pub static mut TABLE_ENTRY_EFFECTS: bool = false;

#[cfg(kani)]
pub fn evaluate_stub(evaluator: &Evaluator, expression: &Expression) -> LuaValue {
    match expression {
        Expression::Table(_) => LuaValue::Table,
        Expression::Identifier(_) => crate::lua::evaluate_stub(evaluator, expression),
        _ => LuaValue::Unknown,
    }
}
#[cfg(kani)]
pub fn table_entry_stub(_evaluator: &Evaluator, _entry: &TableEntry) -> bool {
    unsafe { TABLE_ENTRY_EFFECTS }
}
#[cfg(kani)]
pub fn true_stub_if(_evaluator: &Evaluator, _expression: &IfExpression) -> bool {
    true
}
#[cfg(kani)]
pub fn true_stub_field(_evaluator: &Evaluator, _expression: &FieldExpression) -> bool {
    true
}
#[cfg(kani)]
pub fn true_stub_index(_evaluator: &Evaluator, _expression: &IndexExpression) -> bool {
    true
}
#[cfg(kani)]
pub fn true_stub_type_instantiation(_evaluator: &Evaluator, _expression: &TypeInstantiationExpression) -> bool {
    true
}

#[derive(Clone, Copy)]
struct Operand {
    effects: bool,
    /// a primitive or a fresh table: no metamethod can run on it
    plain: bool,
    truthy: bool,
}

/// Child shapes: 0 identifier-like leaf without effects (value known or not), 1 call,
/// 2 table constructor whose entries may call out (`{ f() }`).
fn child<S: Source>(s: &mut S, slot: usize) -> (Expression, Operand) {
    let shape = s.any_u8();
    s.assume(shape < 3);
    let leaf = any_child(s);
    let table_effects = s.any_bool();
    let truthy = s.any_bool();
    match shape {
        0 => {
            s.assume(!leaf.effects && !leaf.effects_answer && realisable(leaf));
            let plain = leaf.operand.known;
            (
                child_expression(slot, leaf),
                Operand { effects: false, plain, truthy: if leaf.operand.known { leaf.operand.actual.truthy() } else { truthy } },
            )
        }
        1 => (
            FunctionCall::from_name(SLOT_NAMES[slot]).into(),
            Operand { effects: true, plain: false, truthy },
        ),
        _ => {
            #[cfg(kani)]
            unsafe {
                TABLE_ENTRY_EFFECTS = table_effects;
            }
            let entry: Expression = if cfg!(kani) || table_effects {
                FunctionCall::from_name(SLOT_NAMES[slot]).into()
            } else {
                Expression::from(true)
            };
            (
                TableExpression::new(vec![TableEntry::from_value(entry)]).into(),
                Operand { effects: table_effects, plain: true, truthy: true },
            )
        }
    }
}

/// H-SE-binary-inline
pub fn se_binary_inline<S: Source>(s: &mut S) {
    let op = s.any_u8();
    s.assume(op < 16);
    let (evaluator, pure) = any_evaluator(s);
    let (left, l) = child(s, 0);
    // at most one table child (one shared stub answer)
    let (right, r) = child(s, 1);
    s.assume(!(matches!(left, Expression::Table(_)) && matches!(right, Expression::Table(_))));
    let node: Expression = BinaryExpression::new(binary_operator(op), left, right).into();
    let answer = evaluator.has_side_effects(&node);
    let right_evaluated = match op {
        0 => l.truthy,
        1 => !l.truthy,
        _ => true,
    };
    let metamethod = op >= 2 && !pure && (!l.plain || !r.plain);
    let may_call = l.effects || (right_evaluated && r.effects) || metamethod;
    note!(s, "has_side_effects({:?}) = {} ; executing it may call out: {}", node, answer, may_call);
    observe!(answer, "binary reported with side effects");
    observe!(!answer, "binary reported free of side effects");
    if op <= 1 {
        claim!(s, answer || !may_call, "and/or: free of side effects only if no operand that gets evaluated makes a call");
    } else {
        claim!(s, answer || !may_call, "arithmetic, comparison, concat: free of side effects only if neither operand makes a call and (unless metamethods are assumed pure) both are primitives or fresh tables");
    }
    core::mem::forget(node);
}

#[cfg(kani)]
#[kani::proof]
#[kani::unwind(3)]
#[kani::stub(darklua_core::process::Evaluator::evaluate, crate::c08_inline::evaluate_stub)]
#[kani::stub(darklua_core::process::Evaluator::table_entry_has_side_effects, crate::c08_inline::table_entry_stub)]
#[kani::stub(darklua_core::process::Evaluator::if_expression_has_side_effects, crate::c08_inline::true_stub_if)]
#[kani::stub(darklua_core::process::Evaluator::field_has_side_effects, crate::c08_inline::true_stub_field)]
#[kani::stub(darklua_core::process::Evaluator::index_has_side_effects, crate::c08_inline::true_stub_index)]
#[kani::stub(darklua_core::process::Evaluator::type_instantiation_has_side_effects, crate::c08_inline::true_stub_type_instantiation)]
fn c08_se_binary_inline() {
    se_binary_inline(&mut crate::source::KaniSource);
}
