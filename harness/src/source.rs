//! Symbolic / concrete input source shared by the Kani harnesses and the native replayer.
//!
//! Every symbolic input of a harness is drawn through this trait, one primitive at a time, so
//! that the byte vectors printed by Kani's concrete playback (one per `kani::any()` call, in
//! execution order) can be fed back to the very same harness body compiled natively.

pub trait Source {
    fn any_bool(&mut self) -> bool;
    fn any_u8(&mut self) -> u8;
    fn any_u16(&mut self) -> u16;
    fn any_u32(&mut self) -> u32;
    fn any_u64(&mut self) -> u64;
    fn any_usize(&mut self) -> usize;
    fn any_isize(&mut self) -> isize;
    fn any_f64(&mut self) -> f64;
    /// `assume`: under Kani constrains the solver; natively marks the run as outside the
    /// harness's precondition (the replay is then "not reproduced").
    fn assume(&mut self, condition: bool);
    /// Records a violated claim (native only; under Kani claims are `assert!`s).
    fn fail(&mut self, message: &'static str);
    /// Free-form note attached to a native replay (what the real code returned...).
    fn note(&mut self, _note: String) {}
}

#[cfg(kani)]
pub struct KaniSource;

#[cfg(kani)]
impl Source for KaniSource {
    fn any_bool(&mut self) -> bool {
        kani::any()
    }
    fn any_u8(&mut self) -> u8 {
        kani::any()
    }
    fn any_u16(&mut self) -> u16 {
        kani::any()
    }
    fn any_u32(&mut self) -> u32 {
        kani::any()
    }
    fn any_u64(&mut self) -> u64 {
        kani::any()
    }
    fn any_usize(&mut self) -> usize {
        kani::any()
    }
    fn any_isize(&mut self) -> isize {
        kani::any()
    }
    fn any_f64(&mut self) -> f64 {
        kani::any()
    }
    fn assume(&mut self, condition: bool) {
        kani::assume(condition)
    }
    fn fail(&mut self, _message: &'static str) {}
}

/// Replays the byte vectors of a Kani concrete playback.
pub struct ReplaySource {
    values: Vec<Vec<u8>>,
    position: usize,
    pub exhausted: bool,
    pub assumption_violated: bool,
    pub failures: Vec<&'static str>,
    pub notes: Vec<String>,
}

impl ReplaySource {
    pub fn new(values: Vec<Vec<u8>>) -> Self {
        Self {
            values,
            position: 0,
            exhausted: false,
            assumption_violated: false,
            failures: Vec::new(),
            notes: Vec::new(),
        }
    }

    fn next<const N: usize>(&mut self) -> [u8; N] {
        let mut bytes = [0u8; N];
        match self.values.get(self.position) {
            Some(value) if value.len() == N => bytes.copy_from_slice(value),
            Some(value) => {
                // tolerate width differences (never expected): copy what fits
                for (i, b) in value.iter().take(N).enumerate() {
                    bytes[i] = *b;
                }
                self.notes.push(format!(
                    "input #{} has {} bytes, expected {}",
                    self.position,
                    value.len(),
                    N
                ));
            }
            None => self.exhausted = true,
        }
        self.position += 1;
        bytes
    }
}

impl Source for ReplaySource {
    fn any_bool(&mut self) -> bool {
        self.next::<1>()[0] & 1 == 1
    }
    fn any_u8(&mut self) -> u8 {
        self.next::<1>()[0]
    }
    fn any_u16(&mut self) -> u16 {
        u16::from_le_bytes(self.next::<2>())
    }
    fn any_u32(&mut self) -> u32 {
        u32::from_le_bytes(self.next::<4>())
    }
    fn any_u64(&mut self) -> u64 {
        u64::from_le_bytes(self.next::<8>())
    }
    fn any_usize(&mut self) -> usize {
        usize::from_le_bytes(self.next::<8>())
    }
    fn any_isize(&mut self) -> isize {
        isize::from_le_bytes(self.next::<8>())
    }
    fn any_f64(&mut self) -> f64 {
        f64::from_le_bytes(self.next::<8>())
    }
    fn assume(&mut self, condition: bool) {
        if !condition {
            self.assumption_violated = true;
        }
    }
    fn fail(&mut self, message: &'static str) {
        self.failures.push(message);
    }
    fn note(&mut self, note: String) {
        self.notes.push(note);
    }
}

/// A property claim: an `assert!` under Kani, a recorded failure natively.
#[macro_export]
macro_rules! claim {
    ($source:expr, $condition:expr, $message:literal) => {{
        let __holds: bool = $condition;
        #[cfg(kani)]
        {
            assert!(__holds, $message);
        }
        #[cfg(not(kani))]
        {
            if !__holds {
                $crate::source::Source::fail($source, $message);
            }
        }
    }};
}

/// An observation about what the code under test answered (precision, which branch it took):
/// a `kani::cover!` whose outcome is reported in the evidence but never decides the verdict - a
/// more conservative darklua legitimately makes some of them unsatisfiable.
#[macro_export]
macro_rules! observe {
    ($condition:expr, $message:literal) => {{
        #[cfg(kani)]
        {
            kani::cover!($condition, $message);
        }
        #[cfg(not(kani))]
        {
            let _ = &$condition;
        }
    }};
}

/// A reachability witness (vacuity guard): must be satisfiable, else the run is inconclusive.
#[macro_export]
macro_rules! witness {
    ($condition:expr, $message:literal) => {{
        #[cfg(kani)]
        {
            kani::cover!($condition, $message);
        }
        #[cfg(not(kani))]
        {
            let _ = &$condition;
        }
    }};
}

/// Declares the Kani proof wrapper of a harness body `fn $body(&mut impl Source)`.
#[macro_export]
macro_rules! proof {
    ($(#[$attr:meta])* $name:ident => $body:path) => {
        #[cfg(kani)]
        #[kani::proof]
        $(#[$attr])*
        fn $name() {
            $body(&mut $crate::source::KaniSource);
        }
    };
}

/// A note attached to a native replay; compiled out under Kani (`format!` is out of reach, §2).
#[macro_export]
macro_rules! note {
    ($source:expr, $($arg:tt)*) => {{
        // the note sits right after the call of the code under test: under Kani it doubles as the
        // required reachability witness of the claims that follow
        #[cfg(kani)]
        {
            kani::cover!(true, "reached: the code under test returned and the claims are evaluated");
        }
        #[cfg(not(kani))]
        {
            $crate::source::Source::note($source, format!($($arg)*));
        }
    }};
}
