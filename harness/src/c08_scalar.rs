//! C08 — scalar kernels of the static evaluator.
use crate::lua::*;
use crate::reference::*;
use crate::source::Source;
use crate::{claim, note, proof, observe};
use darklua_core::nodes::*;
use darklua_core::process::{Evaluator, LuaValue};

/// H-EV-equal: `evaluate_equal` against raw equality (IEEE on numbers).
pub fn ev_equal<S: Source>(s: &mut S) {
    let a = any_operand(s);
    let b = any_operand(s);
    let pure = s.any_bool();
    let evaluator = if pure {
        Evaluator::default().assume_pure_metamethods()
    } else {
        Evaluator::default()
    };
    let result = evaluator.verif_evaluate_equal(&answer(a), &answer(b));
    note!(s, "evaluate_equal({:?}, {:?}) = {:?}", answer(a), answer(b), result);

    observe!(matches!(result, LuaValue::True), "equal folds to true");
    observe!(matches!(result, LuaValue::False), "equal folds to false");
    observe!(matches!(result, LuaValue::Unknown), "equal stays unknown");

    claim!(
        s,
        matches!(result, LuaValue::True | LuaValue::False | LuaValue::Unknown),
        "== yields a boolean or Unknown"
    );
    if a.known && b.known {
        match lua_raw_equal(a.actual, b.actual) {
            Some(true) => {
                claim!(s, !matches!(result, LuaValue::False), "values equal in Lua must not fold to false")
            }
            Some(false) => {
                claim!(s, !matches!(result, LuaValue::True), "values different in Lua must not fold to true")
            }
            None => {}
        }
    } else {
        // one side is not known: the only value that decides `==` alone is NaN
        let nan_side = (a.known && matches!(a.actual, V::Number(n) if n.is_nan()))
            || (b.known && matches!(b.actual, V::Number(n) if n.is_nan()));
        claim!(
            s,
            matches!(result, LuaValue::Unknown) || (nan_side && matches!(result, LuaValue::False)),
            "== with an unknown operand must stay Unknown"
        );
    }
}
proof!(#[kani::unwind(3)] c08_ev_equal => ev_equal);

/// Exact model of `f64::powi` for base 2 (llvm.powi / __powidf2 squares exactly on powers of
/// two); any other base is unconstrained.
#[cfg(kani)]
pub fn powi_model(base: f64, exponent: i32) -> f64 {
    if base == 2.0 && exponent >= 0 {
        pow2(exponent as u32)
    } else {
        kani::any()
    }
}

/// Exact model of `f64::exp2` on non-negative integral arguments; unconstrained otherwise.
#[cfg(kani)]
pub fn exp2_model(x: f64) -> f64 {
    if x >= 0.0 && x <= 4294967295.0 && x == (x as u32) as f64 {
        pow2(x as u32)
    } else {
        kani::any()
    }
}

pub fn pow2(e: u32) -> f64 {
    if e <= 1023 {
        f64::from_bits(((1023 + e as u64) << 52) as u64)
    } else {
        f64::INFINITY
    }
}

/// H-EV-hex: `HexNumber::compute_value` is `mantissa * 2^exponent` (what `strtod` gives for
/// `0x<mantissa>p<exponent>`), without arithmetic panic.
pub fn ev_hex<S: Source>(s: &mut S) {
    let mantissa = s.any_u64();
    let has_exponent = s.any_bool();
    let exponent = s.any_u32();
    let upper = s.any_bool();
    let number = if has_exponent {
        HexNumber::new(mantissa, upper).with_exponent(exponent, upper)
    } else {
        HexNumber::new(mantissa, upper)
    };
    let value = number.compute_value();
    note!(s, "HexNumber({mantissa:#x}, {:?}).compute_value() = {value:?}", if has_exponent { Some(exponent) } else { None });
    let expected = if !has_exponent || mantissa == 0 {
        mantissa as f64
    } else {
        (mantissa as f64) * pow2(exponent)
    };
    observe!(has_exponent && exponent >= 64, "exponent beyond u64 range");
    observe!(has_exponent && exponent < 64 && mantissa > (u64::MAX >> exponent), "mantissa * 2^e beyond u64 range");
    claim!(s, value.to_bits() == expected.to_bits(), "hex literal value is mantissa * 2^exponent");
}
proof!(#[kani::unwind(34)] #[kani::stub(f64::powi, powi_model)] #[kani::stub(f64::exp2, exp2_model)] c08_ev_hex => ev_hex);
// same body with every default Kani check (overflow, unwrap, index): panic-freedom for C12
proof!(#[kani::unwind(34)] #[kani::stub(f64::powi, powi_model)] #[kani::stub(f64::exp2, exp2_model)] c12_hex_no_panic => ev_hex);

/// `BinaryNumber::compute_value` and `DecimalNumber::compute_value` return the stored value.
pub fn ev_bin_dec<S: Source>(s: &mut S) {
    let raw = s.any_u64();
    let float = s.any_f64();
    let upper = s.any_bool();
    let binary = BinaryNumber::new(raw, upper).compute_value();
    note!(s, "BinaryNumber({}).compute_value() = {}", raw, binary);
    claim!(s, binary.to_bits() == (raw as f64).to_bits(), "binary literal value is its integer");
    let decimal = DecimalNumber::new(float).compute_value();
    claim!(s, decimal.to_bits() == float.to_bits(), "decimal literal value is its float");
    let via_enum = NumberExpression::from(DecimalNumber::new(float)).compute_value();
    claim!(s, via_enum.to_bits() == float.to_bits(), "NumberExpression dispatch keeps the value");
    observe!(float.is_nan(), "nan payload");
}
proof!(#[kani::unwind(34)] c08_ev_bin_dec => ev_bin_dec);
