//! C02 / C01 / C18 — adjacent tokens never fuse into a different token.
use crate::reference::*;
use crate::source::Source;
use crate::{claim, note, proof, observe};
use darklua_core::verif::generator_utils as utils;

pub const MAX_A: usize = 3;
pub const MAX_B: usize = 4;

fn any_token<S: Source, const N: usize>(s: &mut S) -> ([u8; N], usize) {
    let len = s.any_usize();
    s.assume(len >= 1 && len <= N);
    let mut bytes = [0u8; N];
    let mut i = 0;
    while i < N {
        let c = s.any_u8();
        // printable ASCII without whitespace
        s.assume(c > b' ' && c < 0x7f);
        bytes[i] = c;
        i += 1;
    }
    s.assume(well_formed_token(&bytes[..len]));
    (bytes, len)
}

pub const DEEP_A: usize = 6;
pub const DEEP_B: usize = 7;

fn concat(a: &[u8], b: &[u8]) -> ([u8; DEEP_A + DEEP_B], usize) {
    let mut out = [0u8; DEEP_A + DEEP_B];
    let mut n = 0;
    for c in a {
        out[n] = *c;
        n += 1;
    }
    for c in b {
        out[n] = *c;
        n += 1;
    }
    (out, n)
}

/// H-fuse-tokens: the rule shared by the three generators (the only one the token-based
/// generator applies): if `should_break_with_space(last(A), first(B))` is false for two tokens the
/// grammar allows next to each other, the lexer reads `A` back from the text `AB`.
pub fn fuse_tokens<S: Source>(s: &mut S) {
    fuse_tokens_sized::<S, MAX_A, MAX_B>(s)
}
/// Same with tokens of up to 6 and 7 bytes (thorough tier).
pub fn fuse_tokens_deep<S: Source>(s: &mut S) {
    fuse_tokens_sized::<S, DEEP_A, DEEP_B>(s)
}
fn fuse_tokens_sized<S: Source, const NA: usize, const NB: usize>(s: &mut S) {
    let (a, la) = any_token::<S, NA>(s);
    let (b, lb) = any_token::<S, NB>(s);
    let (a, b) = (&a[..la], &b[..lb]);
    s.assume(may_follow(a, b));
    // the token-based generator consults `should_break_with_space` for every token and, right
    // after a number literal (`write_number`), `should_break_after_number` as well
    let character_rule = utils::should_break_with_space(a[la - 1] as char, b[0] as char);
    let separated = character_rule
        || (classify(a) == TokenClass::Number
            && utils::should_break_after_number(a[la - 1] as char, b[0] as char));
    let (text, n) = concat(a, b);
    let read_back = munch(&text[..n]);
    note!(s, "tokens {:?} then {:?}: separator written={} ; lexer reads {} byte(s) of {:?} as the first token",
        String::from_utf8_lossy(a), String::from_utf8_lossy(b), separated, read_back, String::from_utf8_lossy(&text[..n]));
    observe!(separated, "a separator is requested");
    observe!(!separated && classify(a) == TokenClass::Number, "number followed directly by a token");
    observe!(!separated && classify(b) == TokenClass::Str, "token followed directly by a string");
    let open_ended_number =
        classify(a) == TokenClass::Number && (a[la - 1] == b'.' || a[la - 1] == b'_');
    observe!(open_ended_number && separated && !character_rule, "number literal ending in `.` or `_` separated by the number rule");
    if open_ended_number {
        claim!(s, separated || read_back == la, "a number literal spelled with a trailing `.` or `_` is read back as written when the next token follows without separator");
    } else {
        claim!(s, separated || read_back == la, "two adjacent tokens written without separator are read back as written");
    }
}
proof!(#[kani::unwind(9)] c02_fuse_tokens => fuse_tokens);
proof!(#[kani::unwind(15)] c02_fuse_tokens_deep => fuse_tokens_deep);

/// H-fuse-dense: the dense/readable writers replace the character rule by `break_concat` before
/// `..`, `break_variable_arguments` before `...`, `break_minus` before a unary `-`,
/// `break_long_string` before a long string and `break_equal` before the `=` of a typed
/// declaration; numbers are re-spelled by `write_number` (never ending in `.` or `_`).
pub fn fuse_dense<S: Source>(s: &mut S) {
    fuse_dense_sized::<S, MAX_A, MAX_B>(s)
}
/// Same with tokens of up to 6 and 7 bytes (thorough tier).
pub fn fuse_dense_deep<S: Source>(s: &mut S) {
    fuse_dense_sized::<S, DEEP_A, DEEP_B>(s)
}
fn fuse_dense_sized<S: Source, const NA: usize, const NB: usize>(s: &mut S) {
    let (a, la) = any_token::<S, NA>(s);
    let (b, lb) = any_token::<S, NB>(s);
    let (a, b) = (&a[..la], &b[..lb]);
    s.assume(may_follow(a, b));
    if classify(a) == TokenClass::Number {
        // numbers as `write_number` spells them: never a trailing `.`, never an underscore
        s.assume(a[la - 1] != b'.');
        for c in a {
            s.assume(*c != b'_');
        }
    }
    let last_push = core::str::from_utf8(a).unwrap_or("");
    let character_rule = utils::should_break_with_space(a[la - 1] as char, b[0] as char);
    let (text, n) = concat(a, b);
    let read_back = munch(&text[..n]) == la;
    note!(s, "dense: tokens {:?} then {:?}", String::from_utf8_lossy(a), String::from_utf8_lossy(b));
    if b == b".." {
        claim!(s, utils::break_concat(last_push) || read_back, "`..` written right after a token is read back as `..`");
        observe!(utils::break_concat(last_push), "break before concat");
    } else if b == b"..." {
        claim!(s, utils::break_variable_arguments(last_push) || read_back, "`...` written right after a token is read back as `...`");
    } else if b == b"-" {
        claim!(s, utils::break_minus(last_push) || read_back, "unary `-` written right after a token does not open a comment");
        claim!(s, character_rule || read_back, "binary `-` written right after a token does not open a comment");
    } else if b == b"=" {
        claim!(s, utils::break_equal(last_push) || read_back, "`=` written right after a token is read back as `=`");
        claim!(s, character_rule || read_back, "`=` written with the character rule is read back as `=`");
    } else if classify(b) == TokenClass::Str && b[0] == b'[' {
        claim!(s, utils::break_long_string(last_push) || read_back, "a long string written right after a token is read back as written");
        observe!(utils::break_long_string(last_push), "break before long string");
    } else {
        claim!(s, character_rule || read_back, "dense: two adjacent tokens written without separator are read back as written");
    }
}
proof!(#[kani::unwind(9)] c02_fuse_dense => fuse_dense);
proof!(#[kani::unwind(15)] c02_fuse_dense_deep => fuse_dense_deep);
