//! C17 — remove_assertions / remove_debug_profiling only match an unshadowed global of the
//! exact shape (`assert(...)`, `debug.profilebegin(...)`, `debug.profileend(...)`).
use crate::source::Source;
use crate::{claim, note, observe};
use darklua_core::nodes::*;

const NAMES: [&str; 3] = ["assert", "debug", "other"];
const FIELDS: [&str; 3] = ["profilebegin", "profileend", "name"];

/// Prefix shapes: 0 `NAME`, 1 `NAME.FIELD`, 2 `NAME.x.FIELD`, 3 `NAME[FIELD-as-string]`,
/// 4 `(NAME).FIELD`, 5 `x.NAME.FIELD` (a field of another table that happens to be called `debug`),
/// 6 `NAME()`.FIELD … (a call result).
fn build_prefix(shape: u8, name: usize, field: usize) -> Prefix {
    match shape {
        0 => Prefix::from_name(NAMES[name]),
        1 => FieldExpression::new(Prefix::from_name(NAMES[name]), FIELDS[field]).into(),
        2 => FieldExpression::new(
            FieldExpression::new(Prefix::from_name(NAMES[name]), "x"),
            FIELDS[field],
        )
        .into(),
        3 => IndexExpression::new(
            Prefix::from_name(NAMES[name]),
            StringExpression::from_value(FIELDS[field]),
        )
        .into(),
        4 => FieldExpression::new(
            Prefix::Parenthese(Box::new(ParentheseExpression::new(Expression::identifier(NAMES[name])))),
            FIELDS[field],
        )
        .into(),
        5 => FieldExpression::new(
            FieldExpression::new(Prefix::from_name("x"), NAMES[name]),
            FIELDS[field],
        )
        .into(),
        _ => FieldExpression::new(Prefix::from(FunctionCall::from_name(NAMES[name])), FIELDS[field]).into(),
    }
}

#[cfg(not(kani))]
fn prefix_text(shape: u8, name: usize, field: usize) -> String {
    match shape {
        0 => NAMES[name].to_owned(),
        1 => format!("{}.{}", NAMES[name], FIELDS[field]),
        2 => format!("{}.x.{}", NAMES[name], FIELDS[field]),
        3 => format!("{}['{}']", NAMES[name], FIELDS[field]),
        4 => format!("({}).{}", NAMES[name], FIELDS[field]),
        5 => format!("x.{}.{}", NAMES[name], FIELDS[field]),
        _ => format!("{}().{}", NAMES[name], FIELDS[field]),
    }
}

/// Natively: runs the real rule end to end on `[local NAME = f] PREFIX(1)` and reports whether the
/// call was removed.
#[cfg(not(kani))]
fn removed_end_to_end(rule: &str, shadowed: [bool; 2], shape: u8, name: usize, field: usize) -> bool {
    use darklua_core::{Configuration, Options, Resources};
    let mut source = String::new();
    if shadowed[0] {
        source.push_str("local assert = f\n");
    }
    if shadowed[1] {
        source.push_str("local debug = f\n");
    }
    let call = prefix_text(shape, name, field);
    source.push_str(&call);
    source.push_str("(1)\n");
    let resources = Resources::from_memory();
    resources.write("src/main.lua", &source).expect("write");
    let configuration: Configuration = match rule {
        "assert" => Configuration::empty().with_rule(Box::new(darklua_core::rules::RemoveAssertions::default()) as Box<dyn darklua_core::rules::Rule>),
        _ => Configuration::empty().with_rule(Box::new(darklua_core::rules::RemoveDebugProfiling::default()) as Box<dyn darklua_core::rules::Rule>),
    };
    darklua_core::process(&resources, Options::new("src").with_configuration(configuration))
        .expect("process");
    let output = resources.get("src/main.lua").expect("output");
    !output.replace(' ', "").contains(&format!("{}(1)", call.replace(' ', "")))
}

/// H-C17-match
pub fn call_matchers<S: Source>(s: &mut S) {
    let shape = s.any_u8();
    s.assume(shape < 7);
    let name = s.any_usize();
    let field = s.any_usize();
    s.assume(name < 3 && field < 3);
    let shadowed = [s.any_bool(), s.any_bool()];
    let prefix = build_prefix(shape, name, field);
    #[cfg(kani)]
    let (assert_match, debug_match) = {
        unsafe {
            darklua_core::verif::IDENTIFIER_USED_ANSWERS = [shadowed[0], shadowed[1], false];
        }
        (
            darklua_core::verif::assert_call_matches(&prefix),
            darklua_core::verif::debug_profiling_call_matches(&prefix),
        )
    };
    #[cfg(not(kani))]
    let (assert_match, debug_match) = (
        removed_end_to_end("assert", shadowed, shape, name, field),
        removed_end_to_end("debug", shadowed, shape, name, field),
    );
    note!(s, "prefix {:?} with assert shadowed={} debug shadowed={}: assert matcher={} debug matcher={}", prefix, shadowed[0], shadowed[1], assert_match, debug_match);
    let is_assert = shape == 0 && name == 0;
    let is_profiling = shape == 1 && name == 1 && field < 2;
    observe!(assert_match, "an assert call is matched");
    observe!(debug_match && field == 1, "a debug.profileend call is matched");
    observe!(!debug_match && is_profiling, "a shadowed debug call is left alone");
    claim!(s, !assert_match || is_assert, "remove_assertions only matches a call whose prefix is exactly the identifier `assert`");
    claim!(s, !assert_match || !shadowed[0], "remove_assertions never matches when `assert` is a local at the call site");
    claim!(s, !debug_match || is_profiling, "remove_debug_profiling only matches `debug.profilebegin` / `debug.profileend`");
    claim!(s, !debug_match || !shadowed[1], "remove_debug_profiling never matches when `debug` is a local at the call site");
    core::mem::forget(prefix);
}

#[cfg(kani)]
#[kani::proof]
#[kani::unwind(14)]
#[kani::stub(darklua_core::process::scope_visitor::IdentifierTracker::is_identifier_used, darklua_core::verif::is_identifier_used_stub)]
fn c17_call_matchers() {
    call_matchers(&mut crate::source::KaniSource);
}
