//! Name -> harness body table used by the native replayer.
use crate::source::ReplaySource;

pub type Body = fn(&mut ReplaySource);

pub fn bodies() -> Vec<(&'static str, Body)> {
    vec![
        ("compute_and_or_g0", crate::c01_compute::compute_and_or_g0::<ReplaySource> as Body),
        ("compute_and_or_g1", crate::c01_compute::compute_and_or_g1::<ReplaySource> as Body),
        ("compute_and_or_g2", crate::c01_compute::compute_and_or_g2::<ReplaySource> as Body),
        ("compute_and_or_g3", crate::c01_compute::compute_and_or_g3::<ReplaySource> as Body),
        ("compute_and_or_g4", crate::c01_compute::compute_and_or_g4::<ReplaySource> as Body),
        ("compute_and_or_g5", crate::c01_compute::compute_and_or_g5::<ReplaySource> as Body),
        ("compute_and_or_g6", crate::c01_compute::compute_and_or_g6::<ReplaySource> as Body),
        ("compute_and_or_g7", crate::c01_compute::compute_and_or_g7::<ReplaySource> as Body),
        ("compute_and_or_g8", crate::c01_compute::compute_and_or_g8::<ReplaySource> as Body),
        ("compute_and_or_g9", crate::c01_compute::compute_and_or_g9::<ReplaySource> as Body),
        ("compute_and_or_g10", crate::c01_compute::compute_and_or_g10::<ReplaySource> as Body),
        ("compute_and_or_g11", crate::c01_compute::compute_and_or_g11::<ReplaySource> as Body),
        ("if_chain_plain", crate::c06_ifexpr::if_chain_plain::<ReplaySource> as Body),
        ("if_chain_boxed", crate::c06_ifexpr::if_chain_boxed::<ReplaySource> as Body),
        ("if_branch", crate::c06_ifexpr::if_branch::<ReplaySource> as Body),
        ("if_branch_result_leaf", crate::c06_ifexpr::if_branch_result_leaf::<ReplaySource> as Body),
        ("if_branch_result_call", crate::c06_ifexpr::if_branch_result_call::<ReplaySource> as Body),
        ("if_branch_result_varargs", crate::c06_ifexpr::if_branch_result_varargs::<ReplaySource> as Body),
        ("if_branch_result_not", crate::c06_ifexpr::if_branch_result_not::<ReplaySource> as Body),
        ("if_branch_result_minus", crate::c06_ifexpr::if_branch_result_minus::<ReplaySource> as Body),
        ("if_branch_result_length", crate::c06_ifexpr::if_branch_result_length::<ReplaySource> as Body),
        ("se_prefix_simple", crate::c08_steps::se_prefix_simple::<ReplaySource> as Body),
        ("se_prefix_nested", crate::c08_steps::se_prefix_nested::<ReplaySource> as Body),
        ("se_field", crate::c08_steps::se_field::<ReplaySource> as Body),
        ("se_index", crate::c08_steps::se_index::<ReplaySource> as Body),
        ("se_type_instantiation", crate::c08_steps::se_type_instantiation::<ReplaySource> as Body),
        ("se_table_entry", crate::c08_steps::se_table_entry::<ReplaySource> as Body),
        ("multiple_values_calls", crate::c08_steps::multiple_values_calls::<ReplaySource> as Body),
        ("multiple_values_others", crate::c08_steps::multiple_values_others::<ReplaySource> as Body),
        ("ev_if_0", crate::c08_steps::ev_if_0::<ReplaySource> as Body),
        ("ev_if_1", crate::c08_steps::ev_if_1::<ReplaySource> as Body),
        ("ev_if_2", crate::c08_steps::ev_if_2::<ReplaySource> as Body),
        ("se_if_0", crate::c08_steps::se_if_0::<ReplaySource> as Body),
        ("se_if_1", crate::c08_steps::se_if_1::<ReplaySource> as Body),
        ("se_if_2", crate::c08_steps::se_if_2::<ReplaySource> as Body),
        ("c20_rule_apply0_skip0", crate::c20_filters::c20_rule_apply0_skip0::<ReplaySource> as Body),
        ("c20_config_apply0_skip0", crate::c20_filters::c20_config_apply0_skip0::<ReplaySource> as Body),
        ("c20_rule_apply1_skip0", crate::c20_filters::c20_rule_apply1_skip0::<ReplaySource> as Body),
        ("c20_config_apply1_skip0", crate::c20_filters::c20_config_apply1_skip0::<ReplaySource> as Body),
        ("c20_rule_apply0_skip1", crate::c20_filters::c20_rule_apply0_skip1::<ReplaySource> as Body),
        ("c20_config_apply0_skip1", crate::c20_filters::c20_config_apply0_skip1::<ReplaySource> as Body),
        ("c20_rule_apply1_skip1", crate::c20_filters::c20_rule_apply1_skip1::<ReplaySource> as Body),
        ("c20_config_apply1_skip1", crate::c20_filters::c20_config_apply1_skip1::<ReplaySource> as Body),
        ("c20_rule_apply2_skip0", crate::c20_filters::c20_rule_apply2_skip0::<ReplaySource> as Body),
        ("c20_config_apply2_skip0", crate::c20_filters::c20_config_apply2_skip0::<ReplaySource> as Body),
        ("c20_rule_apply0_skip2", crate::c20_filters::c20_rule_apply0_skip2::<ReplaySource> as Body),
        ("c20_config_apply0_skip2", crate::c20_filters::c20_config_apply0_skip2::<ReplaySource> as Body),
        ("c20_rule_apply2_skip2", crate::c20_filters::c20_rule_apply2_skip2::<ReplaySource> as Body),
        ("c20_config_apply2_skip2", crate::c20_filters::c20_config_apply2_skip2::<ReplaySource> as Body),
        ("c20_rule_apply3_skip3", crate::c20_filters::c20_rule_apply3_skip3::<ReplaySource> as Body),
        ("c20_config_apply3_skip3", crate::c20_filters::c20_config_apply3_skip3::<ReplaySource> as Body),
        ("prec_left_binary", crate::c02_prec::prec_left_binary::<ReplaySource> as Body),
        ("prec_left_unary", crate::c02_prec::prec_left_unary::<ReplaySource> as Body),
        ("prec_left_if", crate::c02_prec::prec_left_if::<ReplaySource> as Body),
        ("prec_right_binary", crate::c02_prec::prec_right_binary::<ReplaySource> as Body),
        ("prec_right_unary", crate::c02_prec::prec_right_unary::<ReplaySource> as Body),
        ("prec_right_if", crate::c02_prec::prec_right_if::<ReplaySource> as Body),
        ("operator_tables", crate::c02_prec::operator_tables::<ReplaySource> as Body),
        ("ev_binary_logic", crate::c08_steps::ev_binary_logic::<ReplaySource> as Body),
        ("ev_binary_addsub", crate::c08_steps::ev_binary_addsub::<ReplaySource> as Body),
        ("ev_binary_arith", crate::c08_steps::ev_binary_arith::<ReplaySource> as Body),
        ("ev_unary", crate::c08_steps::ev_unary::<ReplaySource> as Body),
        ("valid_identifier_4", crate::c_scalar::valid_identifier_4::<ReplaySource> as Body),
        ("valid_identifier_6", crate::c_scalar::valid_identifier_6::<ReplaySource> as Body),
        ("single_line_comment_7", crate::c_scalar::single_line_comment_7::<ReplaySource> as Body),
        ("single_line_comment_9", crate::c_scalar::single_line_comment_9::<ReplaySource> as Body),
        ("token_shift", crate::c_scalar::token_shift::<ReplaySource> as Body),
        ("raw_bytes", crate::c_scalar::raw_bytes::<ReplaySource> as Body),
        ("quote_symbol", crate::c_scalar::quote_symbol::<ReplaySource> as Body),
        ("special_floats", crate::c_scalar::special_floats::<ReplaySource> as Body),
        ("luau_number", crate::c_scalar::luau_number::<ReplaySource> as Body),
        ("fuse_tokens", crate::c02_fuse::fuse_tokens::<ReplaySource> as Body),
        ("fuse_dense", crate::c02_fuse::fuse_dense::<ReplaySource> as Body),
        ("ev_equal", crate::c08_scalar::ev_equal::<ReplaySource> as Body),
        ("ev_hex", crate::c08_scalar::ev_hex::<ReplaySource> as Body),
        ("ev_bin_dec", crate::c08_scalar::ev_bin_dec::<ReplaySource> as Body),
    ]
}

pub fn run_body(name: &str, source: &mut ReplaySource) -> bool {
    for (body_name, body) in bodies() {
        if body_name == name {
            body(source);
            return true;
        }
    }
    false
}
