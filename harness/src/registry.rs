//! Name -> harness body table used by the native replayer.
use crate::source::ReplaySource;

pub type Body = fn(&mut ReplaySource);

pub fn bodies() -> Vec<(&'static str, Body)> {
    vec![
        ("fuse_tokens", crate::c02_fuse::fuse_tokens::<ReplaySource> as Body),
        ("fuse_dense", crate::c02_fuse::fuse_dense::<ReplaySource> as Body),
        ("ev_equal", crate::c08_scalar::ev_equal::<ReplaySource> as Body),
        ("ev_hex", crate::c08_scalar::ev_hex::<ReplaySource> as Body),
        ("ev_bin_dec", crate::c08_scalar::ev_bin_dec::<ReplaySource> as Body),
    ]
}

pub fn run_body(name: &str, source: &mut ReplaySource) -> bool {
    for (body_name, body) in bodies() {
        if body_name == name {
            body(source);
            return true;
        }
    }
    false
}
