//! Name -> harness body table used by the native replayer.
use crate::source::ReplaySource;

pub type Body = fn(&mut ReplaySource);

pub fn bodies() -> Vec<(&'static str, Body)> {
    vec![
        ("ev_binary_logic", crate::c08_steps::ev_binary_logic::<ReplaySource> as Body),
        ("ev_binary_addsub", crate::c08_steps::ev_binary_addsub::<ReplaySource> as Body),
        ("ev_binary_arith", crate::c08_steps::ev_binary_arith::<ReplaySource> as Body),
        ("ev_unary", crate::c08_steps::ev_unary::<ReplaySource> as Body),
        ("valid_identifier_4", crate::c_scalar::valid_identifier_4::<ReplaySource> as Body),
        ("valid_identifier_6", crate::c_scalar::valid_identifier_6::<ReplaySource> as Body),
        ("single_line_comment_7", crate::c_scalar::single_line_comment_7::<ReplaySource> as Body),
        ("single_line_comment_9", crate::c_scalar::single_line_comment_9::<ReplaySource> as Body),
        ("token_shift", crate::c_scalar::token_shift::<ReplaySource> as Body),
        ("raw_bytes", crate::c_scalar::raw_bytes::<ReplaySource> as Body),
        ("quote_symbol", crate::c_scalar::quote_symbol::<ReplaySource> as Body),
        ("special_floats", crate::c_scalar::special_floats::<ReplaySource> as Body),
        ("luau_number", crate::c_scalar::luau_number::<ReplaySource> as Body),
        ("fuse_tokens", crate::c02_fuse::fuse_tokens::<ReplaySource> as Body),
        ("fuse_dense", crate::c02_fuse::fuse_dense::<ReplaySource> as Body),
        ("ev_equal", crate::c08_scalar::ev_equal::<ReplaySource> as Body),
        ("ev_hex", crate::c08_scalar::ev_hex::<ReplaySource> as Body),
        ("ev_bin_dec", crate::c08_scalar::ev_bin_dec::<ReplaySource> as Body),
    ]
}

pub fn run_body(name: &str, source: &mut ReplaySource) -> bool {
    for (body_name, body) in bodies() {
        if body_name == name {
            body(source);
            return true;
        }
    }
    false
}
