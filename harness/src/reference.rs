//! Reference models (oracles), written independently from darklua from the Lua 5.1 / Luau
//! reference manuals. Used under Kani and natively by the `replay` binary.

/// R-LUA value kinds.
#[derive(Clone, Copy, PartialEq, Debug)]
pub enum V {
    Nil,
    False,
    True,
    Number(f64),
    /// a string whose bytes are not tracked (see DESIGN §2: Kani 0.68 mis-models the payload)
    Str,
    Table,
    Function,
}

impl V {
    pub fn truthy(self) -> bool {
        !matches!(self, V::Nil | V::False)
    }
}

/// Result of `a == b` in Lua: `None` when the model does not know (two strings: bytes untracked,
/// two tables / two functions: identity untracked).
pub fn lua_raw_equal(a: V, b: V) -> Option<bool> {
    match (a, b) {
        (V::Nil, V::Nil) | (V::False, V::False) | (V::True, V::True) => Some(true),
        // IEEE-754 equality: NaN ~= NaN, 0 == -0, inf == inf
        (V::Number(x), V::Number(y)) => Some(x == y),
        (V::Str, V::Str) | (V::Table, V::Table) | (V::Function, V::Function) => None,
        _ => Some(false),
    }
}

/// R-PREC: Lua 5.1 / Luau binary operator priorities (left, right) as in lparser.c / Luau's
/// Parser.cpp; `unary priority` is 8 (Lua 5.1) / between `*` and `^`.
/// Operator numbering used by the harnesses:
/// 0 and, 1 or, 2 ==, 3 ~=, 4 <, 5 <=, 6 >, 7 >=, 8 +, 9 -, 10 *, 11 /, 12 //, 13 %, 14 ^, 15 ..
pub fn priority(op: u8) -> (u8, u8) {
    match op {
        1 => (1, 1),            // or
        0 => (2, 2),            // and
        2..=7 => (3, 3),        // comparison
        15 => (5, 4),           // .. (right associative)
        8 | 9 => (6, 6),        // + -
        10..=13 => (7, 7),      // * / // %
        14 => (10, 9),          // ^ (right associative)
        _ => (0, 0),
    }
}

pub const UNARY_PRIORITY: u8 = 8;

/// Would the text `a INNER b OUTER c` (no parentheses) be grouped by the parser as
/// `(a INNER b) OUTER c`?  The parser (precedence climbing, `subexpr(limit)`) keeps consuming
/// operators whose *left* priority is greater than the limit, the limit for the right operand of
/// an operator being its *right* priority.
pub fn parses_as_left_nested(inner: u8, outer: u8) -> bool {
    // after `a`, the parser reads INNER, parses its right operand with limit right(INNER):
    // OUTER is absorbed into that right operand iff left(OUTER) > right(INNER)
    !(priority(outer).0 > priority(inner).1)
}

/// Would the text `a OUTER b INNER c` be grouped as `a OUTER (b INNER c)`?
pub fn parses_as_right_nested(outer: u8, inner: u8) -> bool {
    priority(inner).0 > priority(outer).1
}

/// R-ID: `[A-Za-z_][A-Za-z0-9_]*` minus the 21 reserved words of Lua 5.1.
pub fn is_lua_name(s: &[u8]) -> bool {
    if s.is_empty() {
        return false;
    }
    let mut i = 0;
    while i < s.len() {
        let c = s[i];
        let alpha = (c >= b'a' && c <= b'z') || (c >= b'A' && c <= b'Z') || c == b'_';
        let digit = c >= b'0' && c <= b'9';
        if !(alpha || (digit && i > 0)) {
            return false;
        }
        i += 1;
    }
    !is_reserved(s)
}

pub const RESERVED: [&[u8]; 21] = [
    b"and", b"break", b"do", b"else", b"elseif", b"end", b"false", b"for", b"function", b"if",
    b"in", b"local", b"nil", b"not", b"or", b"repeat", b"return", b"then", b"true", b"until",
    b"while",
];

pub fn is_reserved(s: &[u8]) -> bool {
    matches!(
        s,
        b"and" | b"break" | b"do" | b"else" | b"elseif" | b"end" | b"false" | b"for" | b"function"
            | b"if" | b"in" | b"local" | b"nil" | b"not" | b"or" | b"repeat" | b"return" | b"then"
            | b"true" | b"until" | b"while"
    )
}

/// R-COMMENT: does a comment text starting with `--` open a *long* comment
/// (`--[`, `=`*, `[`)?  Everything else is a line comment.
pub fn is_long_comment(s: &[u8]) -> bool {
    if s.len() < 4 || s[0] != b'-' || s[1] != b'-' || s[2] != b'[' {
        return false;
    }
    let mut i = 3;
    while i < s.len() && s[i] == b'=' {
        i += 1;
    }
    i < s.len() && s[i] == b'['
}

// ------------------------------------------------------------------------------------------------
// R-LEX: maximal-munch lexer of Lua 5.1 / Luau on a short byte string without whitespace.

pub fn is_alpha(c: u8) -> bool {
    (c >= b'a' && c <= b'z') || (c >= b'A' && c <= b'Z') || c == b'_'
}

pub fn is_digit(c: u8) -> bool {
    c >= b'0' && c <= b'9'
}

fn at(s: &[u8], i: usize) -> u8 {
    if i < s.len() {
        s[i]
    } else {
        0
    }
}

/// Length of the number starting at `s[0]` (a digit, or `.` followed by a digit): both the
/// Lua 5.1 (`read_numeral`) and the Luau (`readNumber`) lexers consume digits and dots, an
/// optional exponent marker with sign, then every following alphanumeric or underscore
/// character — whether or not the result is a well-formed number.
fn number_len(s: &[u8]) -> usize {
    let mut i = 1;
    while i < s.len() && (is_digit(s[i]) || s[i] == b'.' || s[i] == b'_') {
        i += 1;
    }
    if at(s, i) == b'e' || at(s, i) == b'E' {
        i += 1;
        if at(s, i) == b'+' || at(s, i) == b'-' {
            i += 1;
        }
    }
    while i < s.len() && (is_alpha(s[i]) || is_digit(s[i])) {
        i += 1;
    }
    i
}

/// Length of the first token of `s` (non-empty, no whitespace). A comment or an unterminated
/// string/long bracket swallows the rest of the input: `s.len() + 1` is returned so that it never
/// equals the length of a well-formed token.
pub fn munch(s: &[u8]) -> usize {
    let c = s[0];
    let swallow = s.len() + 1;
    if is_alpha(c) {
        let mut i = 1;
        while i < s.len() && (is_alpha(s[i]) || is_digit(s[i])) {
            i += 1;
        }
        return i;
    }
    if is_digit(c) {
        return number_len(s);
    }
    match c {
        b'.' => {
            if at(s, 1) == b'.' {
                if at(s, 2) == b'.' {
                    3
                } else if at(s, 2) == b'=' {
                    3
                } else {
                    2
                }
            } else if is_digit(at(s, 1)) {
                number_len(s)
            } else {
                1
            }
        }
        b'-' => match at(s, 1) {
            b'-' => swallow,
            b'>' | b'=' => 2,
            _ => 1,
        },
        b'[' => {
            // long bracket opener `[` `=`* `[`
            let mut i = 1;
            while at(s, i) == b'=' {
                i += 1;
            }
            if at(s, i) == b'[' {
                // find the matching closer of the same level
                let level = i - 1;
                let mut j = i + 1;
                while j < s.len() {
                    if s[j] == b']' {
                        let mut k = j + 1;
                        while at(s, k) == b'=' && k - (j + 1) < level {
                            k += 1;
                        }
                        if k - (j + 1) == level && at(s, k) == b']' {
                            return k + 1;
                        }
                    }
                    j += 1;
                }
                swallow
            } else {
                1
            }
        }
        b'"' | b'\'' | b'`' => {
            let mut j = 1;
            while j < s.len() {
                if s[j] == b'\\' {
                    j += 1;
                } else if s[j] == c {
                    return j + 1;
                } else if s[j] == b'\n' {
                    return swallow;
                }
                j += 1;
            }
            swallow
        }
        b'=' | b'~' | b'<' | b'>' | b'+' | b'*' | b'%' | b'^' => {
            if at(s, 1) == b'=' {
                2
            } else {
                1
            }
        }
        b'/' => {
            if at(s, 1) == b'/' {
                if at(s, 2) == b'=' {
                    3
                } else {
                    2
                }
            } else if at(s, 1) == b'=' {
                2
            } else {
                1
            }
        }
        b':' => {
            if at(s, 1) == b':' {
                2
            } else {
                1
            }
        }
        _ => 1,
    }
}

/// Coarse token classes for the adjacency relation of the grammar.
#[derive(Clone, Copy, PartialEq, Debug)]
pub enum TokenClass {
    Name,
    Number,
    Str,
    /// `)` `]` `}` `...`: ends an operand
    Closer,
    /// `(` `{`: starts an operand (and `[` after `{`, `,`, `;`)
    Opener,
    /// binary operators spelled with symbols, incl. `..`
    BinaryOp,
    /// `-` and `#` (unary; `-` is also binary)
    Minus,
    Hash,
    /// `,` `;`
    Separator,
    Equal,
    /// `>` used as generic close is also the comparison `>`: BinaryOp covers it
    Dot,
    Colon,
    DoubleColon,
    Other,
}

/// Classifies a well-formed single token.
pub fn classify(t: &[u8]) -> TokenClass {
    let c = t[0];
    if is_alpha(c) {
        return TokenClass::Name;
    }
    if is_digit(c) || (c == b'.' && t.len() > 1 && is_digit(t[1])) {
        return TokenClass::Number;
    }
    match t {
        b")" | b"]" | b"}" | b"..." => TokenClass::Closer,
        b"(" | b"{" | b"[" => TokenClass::Opener,
        b"+" | b"*" | b"/" | b"//" | b"%" | b"^" | b".." | b"==" | b"~=" | b"<" | b"<=" | b">"
        | b">=" => TokenClass::BinaryOp,
        b"-" => TokenClass::Minus,
        b"#" => TokenClass::Hash,
        b"," | b";" => TokenClass::Separator,
        b"=" => TokenClass::Equal,
        b"." => TokenClass::Dot,
        b":" => TokenClass::Colon,
        b"::" => TokenClass::DoubleColon,
        _ => {
            if c == b'"' || c == b'\'' || c == b'[' || c == b'`' {
                TokenClass::Str
            } else {
                TokenClass::Other
            }
        }
    }
}

/// May token `b` directly follow token `a` in a syntactically valid Lua 5.1 / Luau chunk?
/// (Over-approximating is safe for darklua only if it never emits such a pair; this relation is
/// written from the grammar: operand-ends are followed by operators, closers, separators or the
/// first token of the next statement; operator-likes are followed by operand-starts.)
pub fn may_follow(a: &[u8], b: &[u8]) -> bool {
    use TokenClass::*;
    let (ca, cb) = (classify(a), classify(b));
    let operand_start = matches!(cb, Name | Number | Str | Minus | Hash)
        || matches!(b, b"(" | b"{" | b"...");
    match ca {
        // names are also keywords (`return`, `and`, `end`, ...): anything may follow
        Name => cb != Other,
        Number => {
            matches!(cb, Name | BinaryOp | Minus | Separator | DoubleColon)
                || matches!(b, b")" | b"]" | b"}")
        }
        Str => {
            matches!(cb, Name | BinaryOp | Minus | Separator | DoubleColon | Equal)
                || matches!(b, b")" | b"]" | b"}")
        }
        Closer => {
            if a == b"..." {
                matches!(cb, Name | BinaryOp | Minus | Separator | DoubleColon)
                    || matches!(b, b")" | b"]" | b"}")
            } else {
                matches!(
                    cb,
                    Name | BinaryOp | Minus | Separator | DoubleColon | Equal | Dot | Colon | Str
                ) || matches!(b, b")" | b"]" | b"}" | b"(" | b"[" | b"{")
            }
        }
        Opener => {
            operand_start
                || (a == b"(" && b == b")")
                || (a == b"{" && (b == b"}" || b == b"["))
        }
        BinaryOp => operand_start || (a == b">" && matches!(cb, Equal | Separator) ) || (a == b">" && matches!(b, b")" | b"(")),
        Minus | Hash | Equal | DoubleColon => operand_start,
        Separator => operand_start || b == b"}" || b == b"[" || b == b")",
        Dot => cb == Name,
        Colon => matches!(cb, Name | Str) || matches!(b, b"(" | b"{" | b"..."),
        Other => false,
    }
}

/// Is `t` a well-formed Lua 5.1 / Luau number literal (decimal with optional fraction and
/// exponent, `0x` hexadecimal, `0b` binary; Luau underscores allowed after the first character)?
pub fn well_formed_number(t: &[u8]) -> bool {
    if t.is_empty() {
        return false;
    }
    if t.len() >= 2 && t[0] == b'0' && (t[1] == b'x' || t[1] == b'X' || t[1] == b'b' || t[1] == b'B') {
        let hex = t[1] == b'x' || t[1] == b'X';
        let mut digits = 0;
        let mut i = 2;
        while i < t.len() {
            let c = t[i];
            let ok = if hex {
                is_digit(c) || (c >= b'a' && c <= b'f') || (c >= b'A' && c <= b'F')
            } else {
                c == b'0' || c == b'1'
            };
            if ok {
                digits += 1;
            } else if c != b'_' {
                return false;
            }
            i += 1;
        }
        return digits > 0;
    }
    let mut i = 0;
    let mut digits = 0;
    while i < t.len() && (is_digit(t[i]) || (t[i] == b'_' && i > 0)) {
        if is_digit(t[i]) {
            digits += 1;
        }
        i += 1;
    }
    if i < t.len() && t[i] == b'.' {
        i += 1;
        while i < t.len() && (is_digit(t[i]) || (t[i] == b'_' && is_digit(t[i - 1]))) {
            if is_digit(t[i]) {
                digits += 1;
            }
            i += 1;
        }
    }
    if digits == 0 {
        return false;
    }
    if i < t.len() && (t[i] == b'e' || t[i] == b'E') {
        i += 1;
        if i < t.len() && (t[i] == b'+' || t[i] == b'-') {
            i += 1;
        }
        let mut exponent_digits = 0;
        while i < t.len() && (is_digit(t[i]) || t[i] == b'_') {
            if is_digit(t[i]) {
                exponent_digits += 1;
            }
            i += 1;
        }
        if exponent_digits == 0 {
            return false;
        }
    }
    i == t.len()
}

/// A well-formed single token: exactly one maximal munch, numbers well-formed, and one of the
/// classes of [`classify`] other than `Other`.
pub fn well_formed_token(t: &[u8]) -> bool {
    if t.is_empty() || munch(t) != t.len() {
        return false;
    }
    match classify(t) {
        TokenClass::Other => false,
        TokenClass::Number => well_formed_number(t),
        TokenClass::Opener => t.len() == 1,
        _ => true,
    }
}

// ------------------------------------------------------------------------------------------------
// R-LUA: value-level semantics of Lua 5.1 / Luau operators on abstract values.

/// What executing an operator yields: an exact value, or `Any` when the model does not
/// determine it (run-time error, possible metamethod, untracked string bytes, `pow`).
#[derive(Clone, Copy, PartialEq, Debug)]
pub enum Outcome {
    Value(V),
    /// some number, value untracked
    AnyNumber,
    /// some boolean, value untracked
    AnyBoolean,
    /// some string
    AnyString,
    Any,
}

fn floor(x: f64) -> f64 {
    x.floor()
}

fn small_integer(x: f64) -> bool {
    x == floor(x) && x >= -67108864.0 && x <= 67108864.0
}

/// `a op b` for the operator numbering of [`priority`].
pub fn lua_binary(op: u8, a: V, b: V) -> Outcome {
    match op {
        0 => Outcome::Value(if a.truthy() { b } else { a }),
        1 => Outcome::Value(if a.truthy() { a } else { b }),
        2 | 3 => match lua_raw_equal(a, b) {
            Some(equal) => Outcome::Value(if equal == (op == 2) { V::True } else { V::False }),
            None => Outcome::AnyBoolean,
        },
        4..=7 => match (a, b) {
            (V::Number(x), V::Number(y)) => {
                let holds = match op {
                    4 => x < y,
                    5 => x <= y,
                    6 => x > y,
                    _ => x >= y,
                };
                Outcome::Value(if holds { V::True } else { V::False })
            }
            (V::Str, V::Str) => Outcome::AnyBoolean,
            _ => Outcome::Any, // error, or a metamethod
        },
        8..=14 => match (a, b) {
            (V::Number(x), V::Number(y)) => match op {
                8 => Outcome::Value(V::Number(x + y)),
                9 => Outcome::Value(V::Number(x - y)),
                10 => Outcome::Value(V::Number(x * y)),
                11 => Outcome::Value(V::Number(x / y)),
                12 => Outcome::Value(V::Number(floor(x / y))),
                13 => {
                    // Lua 5.1: a - floor(a/b)*b ; Luau: fmod-based. They agree exactly on
                    // integer-valued operands of small magnitude, the only ones checked.
                    if small_integer(x) && small_integer(y) && y != 0.0 {
                        Outcome::Value(V::Number(x - floor(x / y) * y))
                    } else {
                        Outcome::AnyNumber
                    }
                }
                _ => Outcome::AnyNumber, // `^`: pow is not modelled
            },
            // strings may coerce to numbers (value untracked) or raise an error
            (V::Number(_), V::Str) | (V::Str, V::Number(_)) | (V::Str, V::Str) => Outcome::Any,
            _ => Outcome::Any,
        },
        _ => match (a, b) {
            (V::Number(_) | V::Str, V::Number(_) | V::Str) => Outcome::AnyString,
            _ => Outcome::Any,
        },
    }
}

/// Unary operators: 0 `not`, 1 `-`, 2 `#`.
pub fn lua_unary(op: u8, a: V) -> Outcome {
    match op {
        0 => Outcome::Value(if a.truthy() { V::False } else { V::True }),
        1 => match a {
            V::Number(x) => Outcome::Value(V::Number(-x)),
            _ => Outcome::Any,
        },
        _ => match a {
            V::Str => Outcome::AnyNumber,
            _ => Outcome::Any,
        },
    }
}
