//! Validates the reference models (the oracles of the harnesses) against independent sources,
//! natively: R-PREC against the grouping chosen by the repository's real parser (full_moon) on
//! every operator pair, R-LUA's arithmetic against the repository's own evaluator test vectors,
//! R-LEX / R-ID / R-COMMENT on hand-checked vectors. Run by `bin/setup` (cargo test).
use darklua_core::nodes::*;
use darklua_core::Parser;
use darklua_verif_harness::lua::binary_operator;
use darklua_verif_harness::reference::*;

fn operator_text(op: u8) -> &'static str {
    binary_operator(op).to_str()
}

fn parse_return(code: &str) -> Expression {
    let block = Parser::default().parse(code).unwrap_or_else(|e| panic!("{}: {:?}", code, e));
    match block.get_last_statement() {
        Some(LastStatement::Return(statement)) => statement.iter_expressions().next().unwrap().clone(),
        _ => panic!("no return in {}", code),
    }
}

#[test]
fn precedence_model_agrees_with_the_real_parser_on_every_operator_pair() {
    for first in 0..16u8 {
        for second in 0..16u8 {
            let code = format!("return a {} b {} c", operator_text(first), operator_text(second));
            let expression = parse_return(&code);
            let binary = match &expression {
                Expression::Binary(binary) => binary,
                other => panic!("{} parsed as {:?}", code, other),
            };
            // (a FIRST b) SECOND c  <=>  the root operator is SECOND and its left operand is binary
            let left_nested = binary.operator() == binary_operator(second)
                && matches!(binary.left(), Expression::Binary(_));
            let right_nested = binary.operator() == binary_operator(first)
                && matches!(binary.right(), Expression::Binary(_));
            assert!(left_nested != right_nested, "{}", code);
            assert_eq!(parses_as_left_nested(first, second), left_nested, "left nesting of {}", code);
            assert_eq!(parses_as_right_nested(first, second), right_nested, "right nesting of {}", code);
        }
    }
}

#[test]
fn unary_priority_agrees_with_the_real_parser() {
    for op in 0..16u8 {
        let code = format!("return -a {} b", operator_text(op));
        let expression = parse_return(&code);
        // `-a OP b` is `-(a OP b)` exactly when OP binds tighter than unary operators
        let absorbed = matches!(&expression, Expression::Unary(_));
        assert_eq!(priority(op).0 > UNARY_PRIORITY, absorbed, "{}", code);
    }
}

#[test]
fn lexer_model_on_known_vectors() {
    let cases: &[(&[u8], usize)] = &[
        (b"abc+", 3), (b"a1_b.", 4), (b"1.and", 5), (b"1..2", 4), (b"0xA..b", 3), (b"1e5-", 3), (b"1e-5x", 5),
        (b"..x", 2), (b"...x", 3), (b"..5", 2), (b".5.", 3), (b".x", 1), (b"--x", 4), (b"-x", 1), (b"->x", 2),
        (b"[[a]]b", 5), (b"[=[a]=]b", 7), (b"[x", 1), (b"[=x", 1), (b"==x", 2), (b"=x", 1), (b"~=x", 2), (b"<=x", 2),
        (b">=x", 2), (b">x", 1), (b"//x", 2), (b"/x", 1), (b"::x", 2), (b":x", 1), (b"'a'b", 3), (b"\"a\\\"\"b", 5),
        (b"86_..", 5),
    ];
    for (text, expected) in cases {
        assert_eq!(munch(text), *expected, "{:?}", String::from_utf8_lossy(text));
    }
    // fused pairs do not parse (or parse differently) with the real parser, separated ones do
    // (`1.and`: Lua 5.1's read_numeral and Luau's readNumber both swallow `1.and` as one malformed number; full_moon, the
    // repository's own parser, is lenient and splits it, so that pair cannot be cross-checked with it)
    for (fused, separated) in [("return a--b", "return a- -b"), ("return a[[[x]]]", "return a[ [[x]]]")] {
        assert!(Parser::default().parse(separated).is_ok(), "{}", separated);
        let same = Parser::default().parse(fused).ok() == Parser::default().parse(separated).ok();
        assert!(!same, "{} should not read like {}", fused, separated);
    }
}

#[test]
fn identifier_and_comment_models_on_known_vectors() {
    for name in ["a", "_", "a1", "_G", "End", "nill"] {
        assert!(is_lua_name(name.as_bytes()), "{}", name);
        assert!(Parser::default().parse(&format!("local t = {{ {} = 1 }}", name)).is_ok(), "{}", name);
    }
    for name in ["", "1a", "end", "nil", "a-b", "a b", "while", "elseif", "function"] {
        assert!(!is_lua_name(name.as_bytes()), "{}", name);
        assert!(Parser::default().parse(&format!("local t = {{ {} = 1 }}", name)).is_err(), "{}", name);
    }
    for comment in ["--[[", "--[=[", "--[==[x", "--[[]]"] {
        assert!(is_long_comment(comment.as_bytes()), "{}", comment);
    }
    for comment in ["--", "--[", "--[x[", "--[=", "--[=x[", "-- [[", "--]]", "--[==x[["] {
        assert!(!is_long_comment(comment.as_bytes()), "{}", comment);
    }
    // `a..5` is `a .. 5` for the lexers (the model says the same: munch("..5") == 2)
    assert!(Parser::default().parse("return a..5").ok() == Parser::default().parse("return a.. 5").ok());
    // a line comment swallows the rest of its line, a long comment does not
    assert!(Parser::default().parse("return --[x[ c\n 1").is_ok());
    assert!(Parser::default().parse("return --[==[ c ]==] 1").is_ok());
}

#[test]
fn operator_semantics_model_on_the_repository_vectors() {
    use Outcome::Value;
    let n = V::Number;
    // vectors taken from src/process/evaluator/mod.rs tests
    assert_eq!(lua_binary(12, n(11.0), n(3.0)), Value(n(3.0)));
    assert_eq!(lua_binary(12, n(1.0), n(0.0)), Value(n(f64::INFINITY)));
    assert_eq!(lua_binary(13, n(5.0), n(2.0)), Value(n(1.0)));
    assert_eq!(lua_binary(13, n(-5.0), n(2.0)), Value(n(1.0)));
    assert_eq!(lua_binary(13, n(-5.0), n(-2.0)), Value(n(-1.0)));
    assert_eq!(lua_binary(13, n(5.0), n(-2.0)), Value(n(-1.0)));
    assert_eq!(lua_binary(0, V::True, n(0.0)), Value(n(0.0)));
    assert_eq!(lua_binary(0, V::Nil, V::True), Value(V::Nil));
    assert_eq!(lua_binary(1, V::False, V::Table), Value(V::Table));
    assert_eq!(lua_binary(2, n(f64::INFINITY), n(f64::INFINITY)), Value(V::True));
    assert_eq!(lua_binary(2, n(f64::NAN), n(f64::NAN)), Value(V::False));
    assert_eq!(lua_binary(2, n(0.0), n(-0.0)), Value(V::True));
    assert_eq!(lua_binary(3, V::Nil, V::False), Value(V::True));
    assert_eq!(lua_binary(4, n(1.0), n(f64::NAN)), Value(V::False));
    assert_eq!(lua_unary(0, V::Nil), Value(V::True));
    assert_eq!(lua_unary(0, n(0.0)), Value(V::False));
    assert!(matches!(lua_unary(1, n(0.0)), Value(V::Number(x)) if x == 0.0 && x.is_sign_negative()));
}
