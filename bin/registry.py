"""Registry of Kani harnesses: which property each serves, tier, mode, bounds, stubs.

Fields: name (unique), path (module::fn), props, tier (quick|thorough), mode (lean|full),
timeout_s (quick tier cap; doubled in thorough), mem_gb, encodes (real darklua functions executed
symbolically), bounds, stubs, assumptions, replay (name of the native body, or None).
"""

HARNESSES = []


def H(name, path, props, encodes, bounds, tier="quick", mode="lean", timeout_s=600, mem_gb=None,
      stubs=(), assumptions=(), replay=None, **extra):
    h = dict(name=name, path=path, props=list(props), encodes=list(encodes), bounds=bounds, tier=tier,
             mode=mode, timeout_s=timeout_s, stubs=list(stubs), assumptions=list(assumptions), replay=replay)
    if mem_gb:
        h["mem_gb"] = mem_gb
    h.update(extra)
    HARNESSES.append(h)


STUB_GLOB = "FilterPattern::matches -> solver-chosen bool per pattern (glob engine wax/regex is the environment of the filter logic)"

# ---------------------------------------------------------------------------------------- C20
for apply, skip in [(0, 0), (1, 0), (0, 1), (1, 1), (2, 0), (0, 2), (2, 2), (3, 3)]:
    for kind, fn in [("rule", "RuleMetadata::should_apply"), ("config", "Configuration::should_apply_rule")]:
        H("c20_%s_apply%d_skip%d" % (kind, apply, skip),
          "c20_filters::c20_rule_apply%d_skip%d::%s" % (apply, skip, kind), ["C20"], [fn],
          "%d apply + %d skip patterns (list lengths concrete), every combination of match results" % (apply, skip),
          replay="c20_%s_apply%d_skip%d" % (kind, apply, skip), mode="full", timeout_s=300, stubs=[STUB_GLOB],
          assumptions=["patterns are opaque values with an uninitialised glob (never read: matches is stubbed, values forgotten)",
                       "native replay builds real glob patterns realising the solver's match answers for the path src/a.lua and runs the unstubbed code"],
          tier="quick" if (apply, skip) != (3, 3) else "thorough")

# ---------------------------------------------------------------------------------------- C08 scalar
H("c08_ev_equal", "c08_scalar::c08_ev_equal", ["C08", "C01"], ["Evaluator::evaluate_equal"],
  "all pairs of operand answers: nil/false/true/any f64 (all bit patterns)/string(kind only)/table/function, each exact or Unknown; both evaluator configurations",
  mode="full", timeout_s=300, replay="ev_equal",
  assumptions=["string operands: only the kind of the result is checked (Kani 0.68 mis-models LuaValue::String payload bytes)"])
POWI = "f64::powi / f64::exp2 -> exact models for powers of two (base 2, integral exponent), unconstrained otherwise"
H("c08_ev_hex", "c08_scalar::c08_ev_hex", ["C08", "C13", "C06"], ["HexNumber::compute_value", "HexNumber::with_exponent"],
  "any u64 mantissa, any u32 exponent or none", mode="lean", timeout_s=300, replay="ev_hex", stubs=[POWI])
H("c12_hex_no_panic", "c08_scalar::c12_hex_no_panic", ["C12"], ["HexNumber::compute_value", "HexNumber::with_exponent"],
  "any u64 mantissa, any u32 exponent or none; every arithmetic-overflow, unwrap and index check of the dev profile", mode="full",
  timeout_s=300, replay="ev_hex", stubs=[POWI])
H("c08_ev_bin_dec", "c08_scalar::c08_ev_bin_dec", ["C08", "C13"],
  ["BinaryNumber::compute_value", "DecimalNumber::compute_value", "NumberExpression::compute_value"],
  "any u64, any f64 bit pattern", mode="full", timeout_s=300, replay="ev_bin_dec")

# ---------------------------------------------------------------------------------------- C02 fusion
H("c02_fuse_tokens", "c02_fuse::c02_fuse_tokens", ["C01", "C18", "C12"],
  ["generator::utils::should_break_with_space", "generator::utils::should_break_after_number"],
  "every pair of well-formed tokens A (<= 3 printable ASCII bytes) and B (<= 4 bytes) that the grammar allows to be adjacent (names/keywords, well-formed numbers, short and long strings, all operator and punctuation symbols except compound assignments)",
  mode="lean", timeout_s=900, replay="fuse_tokens",
  assumptions=["adjacency relation reference::may_follow written from the Lua 5.1/Luau grammar (operand-end / operand-start follow sets)",
               "R-LEX reference::munch models Lua 5.1 read_numeral / Luau readNumber maximal munch",
               "that the token-based generator consults should_break_after_number exactly after a number literal (flag set by write_number, cleared by push_str) is read, not executed"])
H("c02_fuse_dense", "c02_fuse::c02_fuse_dense", ["C02"],
  ["generator::utils::should_break_with_space", "generator::utils::break_concat", "generator::utils::break_variable_arguments",
   "generator::utils::break_minus", "generator::utils::break_equal", "generator::utils::break_long_string"],
  "same token pairs as c02_fuse_tokens; numbers as write_number spells them (no trailing `.`, no underscore)",
  mode="lean", timeout_s=900, replay="fuse_dense",
  assumptions=["the dense/readable writers call the break_* predicate named in each claim before the token it guards (call sites read, not executed)"])

# ---------------------------------------------------------------------------------------- scalar kernels
H("c14_valid_identifier_8", "c_scalar::c14_valid_identifier_8", ["C14", "C09"], ["process::utils::is_valid_identifier"],
  "every ASCII string of length 0..=8 (covers all 21 reserved words, `function` being the longest)", mode="lean", timeout_s=1200, mem_gb=16,
  replay="valid_identifier_8", assumptions=["non-ASCII strings: see c14_valid_identifier_unicode"])
H("c14_valid_identifier_unicode", "c_scalar::c14_valid_identifier_unicode", ["C14", "C01", "C09"], ["process::utils::is_valid_identifier"],
  "every string of 1..=3 characters below U+0800 (ASCII and two-byte UTF-8 characters, e.g. accented letters)", mode="lean", timeout_s=900,
  replay="valid_identifier_unicode", assumptions=["characters from U+0800 are outside the bound"])
H("c18_single_line_comment_7", "c_scalar::c18_single_line_comment_7", ["C18", "C01", "C04"], ["generator::token_based::is_single_line_comment"],
  "every ASCII comment text `--...` of length 2..=7", mode="lean", timeout_s=600, replay="single_line_comment_7")
H("c18_single_line_comment_9", "c_scalar::c18_single_line_comment_9", ["C18", "C01", "C04"], ["generator::token_based::is_single_line_comment"],
  "every ASCII comment text `--...` of length 2..=9", tier="thorough", mode="lean", timeout_s=1200, replay="single_line_comment_9")
H("c18_single_line_comment_12", "c_scalar::c18_single_line_comment_12", ["C18", "C01", "C04"], ["generator::token_based::is_single_line_comment"],
  "every ASCII comment text `--...` of length 2..=12", tier="thorough", mode="lean", timeout_s=1800, mem_gb=24, replay="single_line_comment_12")
H("c04_token_shift", "c_scalar::c04_token_shift", ["C04", "C12"], ["Token::shift_token_line", "Token::replace_with_content", "Token::get_line_number"],
  "any usize line, any isize amount, the three token position kinds", mode="full", timeout_s=300, replay="token_shift")
H("c13_raw_bytes", "c_scalar::c13_raw_bytes", ["C13", "C14"], ["generator::utils::needs_escaping", "generator::utils::needs_quoted_string"],
  "all 256 byte values", mode="full", timeout_s=300, replay="raw_bytes")
H("c13_quote_symbol", "c_scalar::c13_quote_symbol", ["C13"], ["generator::utils::get_quote_symbol"],
  "every byte string of length 0..=4", mode="full", timeout_s=300, replay="quote_symbol")
# c13_special_floats (Expression::from(f64) on NaN/inf/zero) is not registered: the function is
# recursive through two call sites and CBMC unrolls the normal/subnormal arm (log10, powf, a while
# loop) at every level even though it is assumed away: out of memory at 12 GB with unwind 3.
H("c06_luau_number", "c_scalar::c06_luau_number", ["C06", "C07"], ["convert_luau_number::Processor::process_number_expression", "HexNumber::compute_value", "BinaryNumber::compute_value"],
  "any u64 binary literal, either prefix case", mode="lean", timeout_s=600, replay="luau_number")

# ---------------------------------------------------------------------------------------- C08 node steps
NATIVE_NOTE = "native replay runs the real unstubbed Evaluator::evaluate on the smallest real expression realising the solver's child answers"
EVAL_STUB = "Evaluator::evaluate -> induction hypothesis: the exact value of the child, or Unknown (solver's choice)"
SE_STUB = "Evaluator::has_side_effects -> induction hypothesis: true whenever executing the child can call out (solver's choice otherwise)"
NUMCO_STUB = "LuaValue::number_coercion -> identity (operand domain has no strings; the string arm runs dec2flt)"
STRCO_STUB = "LuaValue::string_coercion -> a number becomes an opaque string (flt2dec digits are outside the claim)"
NATIVE_NOTE_ = "native replay runs the real unstubbed Evaluator::evaluate on the smallest real expression realising the solver's child answers"
BIN_FNS = ["Evaluator::evaluate_binary", "Evaluator::evaluate_math", "Evaluator::evaluate_relational", "Evaluator::evaluate_equal",
           "LuaValue::map_if_truthy", "LuaValue::map_if_truthy_else", "LuaValue::is_truthy"]
BIN_ASSUME = ["string operands excluded (Kani 0.68 mis-models LuaValue::String payloads; coercions run dec2flt/flt2dec)", NATIVE_NOTE]
H("c08_ev_binary_logic", "c08_steps::c08_ev_binary_logic", ["C08", "C01"], BIN_FNS,
  "and, or, ==, ~=, <, <=, >, >=, .. x two children, each nil/false/true/any f64 (all bit patterns)/table/function, exactly known or Unknown; both evaluator configurations; one node (deeper trees by structural induction)",
  mode="lean", timeout_s=900, mem_gb=16, replay="ev_binary_logic", stubs=[EVAL_STUB, NUMCO_STUB, STRCO_STUB], assumptions=BIN_ASSUME)
H("c08_ev_binary_addsub", "c08_steps::c08_ev_binary_addsub", ["C08", "C01"], BIN_FNS,
  "+ and - x two children over all f64 bit patterns (and the non-number kinds), known or Unknown",
  tier="thorough", mode="lean", timeout_s=1500, mem_gb=16, replay="ev_binary_addsub", stubs=[EVAL_STUB, NUMCO_STUB, STRCO_STUB], assumptions=BIN_ASSUME)
H("c08_ev_binary_arith", "c08_steps::c08_ev_binary_arith", ["C08", "C01"], BIN_FNS,
  "+ - * / // % ^ x two children whose number values range over a table of 24 boundary doubles (0, -0, +-1, +-2, +-3, +-0.5, 0.1, +-7, +-1e308, 5e-324, +-inf, NaN, 2^53, 2^53+2, +-1.5, 10) and the non-number kinds, known or Unknown",
  mode="lean", timeout_s=900, mem_gb=16, replay="ev_binary_arith", stubs=[EVAL_STUB, NUMCO_STUB, STRCO_STUB],
  assumptions=BIN_ASSUME + ["number operands outside the 24-value table are outside the claim for * / // % (bit-blasted equivalence of two dividers/multipliers over all of f64 did not finish in 20 min)",
                            "`^`: only the kind of the result is checked (no model of pow)",
                            "`%`: value checked on integer-valued operands up to 2^26 where Lua 5.1 and Luau agree exactly"])
H("c08_ev_unary", "c08_steps::c08_ev_unary", ["C08", "C01"], ["Evaluator::evaluate_unary", "LuaValue::length", "LuaValue::is_truthy"],
  "3 operators x child nil/false/true/any f64/string (kind)/table/function, known or Unknown", mode="lean", timeout_s=900,
  replay="ev_unary", stubs=[EVAL_STUB, NUMCO_STUB], assumptions=["unary minus on strings excluded (dec2flt)", NATIVE_NOTE])

# ---------------------------------------------------------------------------------------- C02 precedence
PREC_NOTE = "reference::priority = operator priorities of lparser.c / Luau Parser.cpp; regrouping decided by precedence climbing (subexpr(limit))"
for group, shapes in [("binary", "{leaf, x INNER y (16 inner operators), parenthese}"), ("unary", "{unary (3 operators), x INNER -y}"),
                      ("if", "{if-expression, x INNER if-expression, unary if-expression}"),
                      ("unary_binary_if", "{unary applied to `x INNER if-expression` (16 inner operators x 3 unary operators)}")]:
    H("c02_prec_left_" + group, "c02_prec::c02_prec_left_" + group, ["C02"],
      ["BinaryOperator::left_needs_parentheses", "BinaryOperator::precedes", "BinaryOperator::get_precedence", "binary::ends_with_if_expression",
       "binary::ends_with_type_cast_to_type_name_without_type_parameters"],
      "16 outer operators x left operand shapes " + shapes,
      mode="lean", timeout_s=900, mem_gb=16, replay="prec_left_" + group, assumptions=[PREC_NOTE, "type casts as operands are outside the claim"])
for group, shapes in [("binary", "{leaf, a INNER b (16 inner operators), parenthese}"), ("unary", "{unary (3 operators), a INNER -b}"),
                      ("if", "{if-expression, a INNER if-expression, unary if-expression}")]:
    H("c02_prec_right_" + group, "c02_prec::c02_prec_right_" + group, ["C02"],
      ["BinaryOperator::right_needs_parentheses", "BinaryOperator::precedes", "BinaryOperator::get_precedence"],
      "16 outer operators x right operand shapes " + shapes, mode="lean", timeout_s=900, mem_gb=16,
      replay="prec_right_" + group, assumptions=[PREC_NOTE])
H("c02_operator_tables", "c02_prec::c02_operator_tables", ["C02"],
  ["BinaryOperator::precedes_unary_expression", "BinaryOperator::is_left_associative", "BinaryOperator::is_right_associative",
   "BinaryOperator::to_str", "BinaryOperator::precedes"],
  "all 16 operators, all 256 operator pairs", mode="lean", timeout_s=600, replay="operator_tables", assumptions=[PREC_NOTE])

for n in (0, 1, 2):
    H("c08_ev_if_%d" % n, "c08_steps::c08_ev_if_%d" % n, ["C08", "C01"], ["Evaluator::evaluate_if", "LuaValue::is_truthy"],
      "if-expression with %d elseif branch(es); every child nil/false/true/any f64/string(kind)/table/function, exactly known or Unknown" % n,
      mode="lean", timeout_s=900, mem_gb=16, replay="ev_if_%d" % n, stubs=[EVAL_STUB, SE_STUB], assumptions=[NATIVE_NOTE],
      tier="quick" if n else "thorough")
    H("c08_se_if_%d" % n, "c08_steps::c08_se_if_%d" % n, ["C08", "C01"], ["Evaluator::if_expression_has_side_effects", "LuaValue::is_truthy"],
      "if-expression with %d elseif branch(es); every child's value kind, knownness, real effect and analysis answer symbolic (answer never misses an effect)" % n,
      mode="lean", timeout_s=900, mem_gb=16, replay="se_if_%d" % n, stubs=[EVAL_STUB, SE_STUB], assumptions=[NATIVE_NOTE],
      tier="quick" if n == 2 else "thorough")

SE_HELPER_NOTE = "native replay is not faithful for these private arms (they are reached natively only through has_side_effects): a counterexample is replayed through the public Evaluator::has_side_effects on the realised expression"
for name, fn, bounds in [
    ("c08_se_prefix_simple", "Evaluator::prefix_has_side_effects", "prefix in {identifier, call, parenthesised child}"),
    ("c08_se_prefix_nested", "Evaluator::prefix_has_side_effects", "prefix in {P.name, P[key]} with P in {identifier, call, parenthesised child}"),
    ("c08_se_field", "Evaluator::field_has_side_effects", "field access on the nested prefixes"),
    ("c08_se_index", "Evaluator::index_has_side_effects", "index access (symbolic key child) on the nested prefixes"),
    ("c08_se_type_instantiation", "Evaluator::type_instantiation_has_side_effects", "type instantiation of the nested prefixes"),
]:
    H(name, "c08_steps::" + name, ["C08", "C01"], [fn, "Evaluator::prefix_has_side_effects", "Evaluator::field_has_side_effects", "Evaluator::index_has_side_effects", "Evaluator::call_has_side_effects"],
      bounds + "; both evaluator configurations; children's effects and analysis answers symbolic",
      tier="thorough" if name in ("c08_se_prefix_simple", "c08_se_type_instantiation") else "quick",
      mode="lean", timeout_s=600, replay=None, stubs=[EVAL_STUB, SE_STUB],
      assumptions=["under assume_pure_metamethods, indexing is taken to invoke no effectful metamethod (the configuration's contract)"])
H("c08_se_table_entry", "c08_steps::c08_se_table_entry", ["C08", "C01"], ["Evaluator::table_entry_has_side_effects", "Evaluator::maybe_metatable"],
  "the three table entry kinds with symbolic key/value children; maybe_metatable on every value kind", mode="lean", timeout_s=600,
  replay=None, stubs=[EVAL_STUB, SE_STUB])
H("c08_multiple_values_calls", "c08_steps::c08_multiple_values_calls", ["C08", "C01"], ["Evaluator::can_return_multiple_values"],
  "7 expression forms: call, `...`, method call, (call), 16 binary operators on calls, unary on call, identifier",
  mode="lean", timeout_s=600, mem_gb=16, replay="multiple_values_calls")
H("c08_multiple_values_others", "c08_steps::c08_multiple_values_others", ["C08", "C01"], ["Evaluator::can_return_multiple_values"],
  "7 expression forms: field, index, if-expression, table, nil, true, false",
  mode="lean", timeout_s=600, mem_gb=16, replay="multiple_values_others", tier="thorough",
  assumptions=["function, number, string, interpolated-string, type-cast and type-instantiation expressions are outside the bound"])

# ---------------------------------------------------------------------------------------- C01 compute step
for g in range(32):
    H("c01_compute_and_or_g%d" % g, "c01_compute::c01_compute_and_or_g%d" % g, ["C01"], ["compute_expression::Computer::replace_with (and/or arms)", "LuaValue::is_truthy"],
      "one `L and R` / `L or R` node, control scenarios of group %d of harness/src/c01_scenarios_g*.in (96 in all: operator x whether R is a real call expression x what evaluate(L) answers {nil, true, table, Unknown} x what has_side_effects answers for L and for the node x what evaluate(node) answers {nil, true, Unknown}); "
      "operand values (any f64 for numbers), the right operand (leaf / call / `...`, value, effects) and the operands' real behaviour symbolic" % g,
      tier="quick" if g == 0 else "thorough", mode="lean", timeout_s=1200, mem_gb=28 if g == 0 else 34, replay="compute_and_or_g%d" % g,
      stubs=[EVAL_STUB, SE_STUB, "LuaValue::to_expression -> records the folded value and returns a marker (literal construction runs log10/powf)",
             "<Expression as Clone>::clone -> copy of the harness's identifier leaves", "Computer::process_expression (the recursive re-processing of the replacement) -> no-op"],
      assumptions=["under Kani the left operand is an identifier leaf whatever its shape and the right operand is an identifier leaf or a real call `b()` (scenario constant): code that inspects the variant of the RIGHT operand (e.g. to parenthesise a call) sees a real call; `...` as right operand and calls as left operand remain model attributes",
                   "the answers replace_with branches on are constants of each scenario (keeps CBMC out of the drop glue of Option<Expression> temporaries); evaluate(L) answering false/number/string/table/function is represented by `true`/`nil` of the same truthiness",
                   "has_side_effects(L op R) is true whenever has_side_effects(L) is; evaluate(L op R) is definite only if the operands that decide it are known",
                   "native replay runs the real Computer::replace_with (real evaluator, real clone) on realised operands"])

# ---------------------------------------------------------------------------------------- C06 if-expression step
H("c06_if_branch", "c06_ifexpr::c06_if_branch", ["C06"],
  ["remove_if_expression::Processor::convert_if_branch", "remove_if_expression::Processor::wrap_in_table", "Evaluator::can_return_multiple_values", "LuaValue::is_truthy"],
  "one if/else branch; condition in {leaf, call}, else operand in {leaf, call, `...`}, result operand over all shapes: a single-valued leaf (value nil/false/true/any f64/string/table/function, known or Unknown), a call, `...`, or `not x` / `-x` / `#x` over an unknown leaf",
  tier="thorough", mode="lean", timeout_s=1500, mem_gb=24, replay="if_branch", stubs=[EVAL_STUB],
  assumptions=["elseif chains are folded by the same step (fold over branches in process_expression, which clones nodes and is not executed)",
               "native replay runs the real convert_if_branch with the real evaluator on realised operands"])

for shape, text in [("leaf", "a single-valued leaf (value nil/false/true/any f64/string/table/function, known or Unknown)"), ("call", "a call"),
                    ("varargs", "`...`"), ("not", "`not x`"), ("minus", "`-x`"), ("length", "`#x`"),
                    ("same_leaf", "the very same leaf as the condition (`if a then a else e`)"), ("same_call", "the very same call as the condition (`if a() then a() else e`: two evaluations)")]:
    H("c06_if_branch_" + ("" if shape.startswith("same") else "result_") + shape, "c06_ifexpr::c06_if_branch_" + ("" if shape.startswith("same") else "result_") + shape, ["C06"],
      ["remove_if_expression::Processor::convert_if_branch", "remove_if_expression::Processor::wrap_in_table", "Evaluator::can_return_multiple_values", "LuaValue::is_truthy"],
      "one if/else branch whose result operand is " + text + "; condition and else operands are leaves with symbolic values",
      tier="quick" if shape in ("leaf", "call", "not", "same_leaf") else "thorough",
      mode="lean", timeout_s=900, mem_gb=16, replay="if_branch_" + ("" if shape.startswith("same") else "result_") + shape, stubs=[EVAL_STUB],
      assumptions=["native replay runs the real convert_if_branch with the real evaluator on realised operands"])
# c06_if_chain_* (the whole process_expression fold over two elseif branches, interpreted) are written
# in harness/src/c06_ifexpr.rs but not registered: the slice-iterator loop of `fold` is unrolled to the
# unwind bound with convert_if_branch inlined in each copy (out of memory at 16 GB, unwind 7).

# ---------------------------------------------------------------------------------------- C19
RS_STUB = "std::hash::RandomState::new -> fixed keys (getrandom is a syscall Kani cannot run); nothing depending on hash-map iteration order is claimed"
for kind, rule in [("plain", "remove_empty_do (no properties)"), ("property", "remove_assertions with preserve_arguments_side_effects=false")]:
    for which, counts in [("apply", "1 apply pattern"), ("skip", "1 skip pattern"), ("both", "2 apply and 1 skip patterns"), ("many", "1 apply and 3 skip patterns"), ("none", "no patterns")]:
        if kind == "property":
            # rules with properties build a HashMap (hashbrown insert / SipHash): CBMC does not finish (10 min cap)
            continue
        H("c19_rule_ser_%s_%s" % (kind, which), "c19_config::c19_rule_ser_%s_%s" % (kind, which), ["C19"],
          ["impl Serialize for dyn Rule", "RuleConfiguration::serialize_to_properties", "RuleConfiguration::set_metadata", "RuleConfiguration::metadata"],
          "rule %s with %s (opaque); serialized into a recording serde Serializer (string vs object form, keys written, number of patterns written under each filter key)" % (rule, counts),
          mode="lean", timeout_s=600, replay="rule_ser_%s_%s" % (kind, which), stubs=[RS_STUB],
          assumptions=["values written under the keys, the deserializers and per-rule configure are outside the claim",
                       "native replay uses real glob patterns and the same recording serializer"],
          tier="quick" if kind == "plain" or which in ("both", "skip") else "thorough")

# ---------------------------------------------------------------------------------------- C17
H("c17_call_matchers", "c17_matchers::c17_call_matchers", ["C17"],
  ["remove_assertions::AssertMatcher::matches", "remove_debug_profiling::should_remove_call"],
  "call prefixes NAME, NAME.FIELD, NAME.x.FIELD, NAME['FIELD'], (NAME).FIELD, x.NAME.FIELD, NAME().FIELD with NAME in {assert, debug, other} and FIELD in {profilebegin, profileend, name}; `assert` / `debug` shadowed or not (all 4 combinations)",
  mode="lean", timeout_s=900, mem_gb=16, replay="call_matchers",
  stubs=["IdentifierTracker::is_identifier_used -> solver-chosen answer for `assert` and for `debug` (the scope tracker, a Vec<HashSet<String>>, is the environment of the per-call decision)"],
  assumptions=["native replay runs the real rule end to end (darklua_core::process on in-memory resources) on `[local NAME = f] PREFIX(1)` and looks for the call in the output",
               "what replaces a matched call (argument preservation, select handling) and inject_global_value are outside the claim"])

INJECT_KINDS = [("identifier", "the identifier `NAME`"), ("other_identifier", "another identifier")]
# The other shapes written in harness/src/c17_inject.rs are not registered: `_G.NAME`, `_G.other`, `x.NAME`, `_G["NAME"]`, `x["NAME"]`,
# `_G["other"]` (overwriting a Field/Index node: CBMC explores the drop glue behind the Box, out of memory at 16 GB after 400-580 s each)
# and `NAME` in prefix position (process_prefix_expression overwrites a `Prefix` through `&mut`: out of memory at 16 GB at unwind 12 and 5).
# Prefix position is where the rule does not consult the scope tracker at all (DESIGN §7, observations).
for kind, what in INJECT_KINDS:
    H("c17_inject_%s" % kind, "c17_inject::c17_inject_%s" % kind, ["C17"],
      ["inject_value::ValueInjection::process_expression" if "prefix" not in kind else "inject_value::ValueInjection::process_prefix_expression"],
      "one node step of inject_global_value on %s, with NAME a local or not and `_G` a local or not (4 control scenarios, constants of the call site)" % what,
      mode="lean", timeout_s=900, mem_gb=16, replay="inject_%s" % kind,
      stubs=["IdentifierTracker::is_identifier_used -> the scenario's answer for NAME and for `_G`",
             "<Expression as Clone>::clone -> a marker identifier (the only clone in the step is the injected value)"],
      assumptions=["NAME is the fixed name `dev`, the injected value a marker; which value kinds the rule accepts and how the scope tracker is fed by ScopeVisitor are outside the claim",
                   "native replay runs the real rule end to end (darklua_core::process on in-memory resources) on `[local dev = f] [local _G = f] return NODE`"])

# ---------------------------------------------------------------------------------------- C18 location
# c18_comment_location_* (the real AppendTextComment::process on an empty block, text() and ShiftTokenLine stubbed) are written in
# harness/src/c18_location.rs but not registered: 107-146 k symex steps, yet the SAT conversion runs out of 16 GB even for a single
# fully concrete scenario (str::lines / memchr searchers on the wrapper text).

for n, tier in ((8, "quick"), (12, "thorough")):
    H("c19_generator_name_%d" % n, "c19_config::c19_generator_name_%d" % n, ["C19"], ["impl FromStr for GeneratorParameters"],
      "every ASCII string of length 0..=%d" % n, tier=tier, mode="lean", timeout_s=900, replay="generator_name_%d" % n,
      stubs=["alloc::fmt::format -> empty string (only used for the error message)"],
      assumptions=["the object form of the generator setting (serde derive, column_span) is outside the claim"])

# c02_separator_* (ends_with_prefix / starts_with_parenthese over pairs of statements, harness/src/c02_separator.rs) are written but
# not registered: building two Statement values with symbolic shapes costs 2.15 M symex steps and the SAT conversion runs out of 16 GB.

# c08_se_binary_inline (harness/src/c08_inline.rs: the real has_side_effects entered on a binary node, evaluate and the five helper
# functions stubbed, the recursive call on leaf children real) is written but not registered: CBMC was still in symbolic execution
# at 19 GB after 20 minutes (the dispatcher's arms are explored at both levels). The inline arms stay outside the claim.

H("c12_sort_char_order", "c_scalar::c12_sort_char_order", ["C12"], ["rename_variables::rename_processor::sort_char"],
  "all triples of characters of the identifier alphabet [A-Za-z0-9_]", mode="full", timeout_s=600, replay="sort_char_order",
  assumptions=["sort_identifiers (the lexicographic lift) and the sort_by call are read, not executed"])

# ---------------------------------------------------------------------------------------- deeper bounds (thorough tier)
H("c02_fuse_tokens_deep", "c02_fuse::c02_fuse_tokens_deep", ["C01", "C18", "C12"], ["generator::utils::should_break_with_space"],
  "every pair of well-formed tokens A (<= 6 printable ASCII bytes) and B (<= 7 bytes) that the grammar allows to be adjacent", tier="thorough",
  mode="lean", timeout_s=1800, mem_gb=24, replay="fuse_tokens_deep",
  assumptions=["adjacency relation reference::may_follow written from the Lua 5.1/Luau grammar", "R-LEX reference::munch models Lua 5.1 read_numeral / Luau readNumber maximal munch"])
H("c02_fuse_dense_deep", "c02_fuse::c02_fuse_dense_deep", ["C02"],
  ["generator::utils::should_break_with_space", "generator::utils::break_concat", "generator::utils::break_variable_arguments",
   "generator::utils::break_minus", "generator::utils::break_equal", "generator::utils::break_long_string"],
  "token pairs A (<= 6 bytes), B (<= 7 bytes); numbers as write_number spells them", tier="thorough", mode="lean", timeout_s=1800, mem_gb=24,
  replay="fuse_dense_deep", assumptions=["the dense/readable writers call the break_* predicate named in each claim before the token it guards (call sites read, not executed)"])

H("c13_quote_symbol_8", "c_scalar::c13_quote_symbol_8", ["C13"], ["generator::utils::get_quote_symbol"],
  "every byte string of length 0..=8", tier="thorough", mode="full", timeout_s=600, replay="quote_symbol_8")

# c13_quoted_form (write_quoted on 1-2 ASCII bytes with `escape` stubbed, harness/src/c_scalar.rs) is written but not registered:
# 3.9 M symex steps (String pushes of symbolic chars through encode_utf8), out of memory at 24 GB.

for kind, text in [("unary", "`not a`"), ("if", "`if a then b else c`")]:
    H("c01_compute_" + kind, "c01_compute::c01_compute_" + kind, ["C01"], ["compute_expression::Computer::replace_with (%s arm)" % kind],
      "one " + text + " node; five control scenarios (what has_side_effects and evaluate answer for the node); the node's real value and effects symbolic within the induction hypothesis",
      mode="lean", timeout_s=1200, mem_gb=16, replay=None,
      stubs=[EVAL_STUB, SE_STUB, "LuaValue::to_expression -> records the folded value and returns a marker", "<Expression as Clone>::clone -> copy of identifier leaves", "Computer::process_expression -> no-op"],
      assumptions=["no native replay: the node's analyses' answers are the solver's; a counterexample is reported as inconclusive unless reproduced by the and/or harnesses"])

# c17_preserved_arguments_* (utils::expressions_as_expression on 0..3 argument leaves, result interpreted; harness/src/c17_args.rs) are
# written but not registered: consuming the Vec<Expression> (into_iter / rfold) drags in the drop glue of the AST, out of memory at 16 GB.

for side, fn in (("left", "BinaryOperator::left_needs_parentheses"), ("right", "BinaryOperator::right_needs_parentheses")):
    H("c02_prec_%s_nested" % side, "c02_prec::c02_prec_%s_nested" % side, ["C02"], [fn, "BinaryOperator::precedes", "BinaryOperator::get_precedence"],
      "16 outer operators x three-level %s operands `(x INNER2 y) INNER z` and `x INNER (y INNER2 z)` (16 x 16 inner operators, no Parenthese nodes)" % side,
      mode="lean", timeout_s=900, mem_gb=16, replay="prec_%s_nested" % side,
      assumptions=[PREC_NOTE, "the operand itself is written correctly at its own level (structural induction); precedence being a total preorder, the pair (INNER, OUTER) decides"])
